"""Engine B -- ``object-heap`` (C05, and C19 for everything except __setitem__/__getitem__).

A heap of live objects of all seven classes plus loose ndarrays.  Each step either applies
a catalogued public operation to operands drawn from the heap (the result joins the heap),
or injects a *perturbation* (an in-place write into one buffer of one live object), or --
as the fault kind of C19 -- issues a *malformed request*.

Reference model: per object a deep snapshot of every reachable buffer and structural
attribute, and an alias group (union-find); two objects may share memory only through a
documented no-copy path.  Invariants after every step: operands unchanged, no undeclared
sharing (``np.shares_memory``, exact), a perturbation is invisible outside its alias
group, in-place operations change their receiver only.
"""

from __future__ import annotations

import copy as _copy
import warnings
from typing import Any, Dict, List, Optional, Tuple

import numpy as np

from .catalog_b import JudgeOnly
from .kernel import H, RunResult, Streams, Violation, arr_digest, dec, enc, weighted
from .world import SimClock, World

MAX_HEAP = 14


class _Skip(Exception):
    pass


def is_sparse_matrix(x) -> bool:
    return hasattr(x, "tocoo") and hasattr(x, "data")


class Heap:
    def __init__(self, ttb):
        self.ttb = ttb
        self.objs: Dict[int, Any] = {}
        self.kinds: Dict[int, str] = {}
        self.snaps: Dict[int, Any] = {}
        self.parent: Dict[int, int] = {}
        self.next_id = 0

    # union-find over alias groups
    def find(self, i):
        while self.parent[i] != i:
            self.parent[i] = self.parent[self.parent[i]]
            i = self.parent[i]
        return i

    def union(self, a, b):
        ra, rb = self.find(a), self.find(b)
        if ra != rb:
            self.parent[ra] = rb

    def kind_of(self, obj) -> str:
        ttb = self.ttb
        if isinstance(obj, ttb.tensor):
            return "T"
        if isinstance(obj, ttb.sptensor):
            return "S"
        if isinstance(obj, ttb.ktensor):
            return "K"
        if isinstance(obj, ttb.ttensor):
            return "TT"
        if isinstance(obj, ttb.sumtensor):
            return "SUM"
        if isinstance(obj, ttb.tenmat):
            return "TM"
        if isinstance(obj, ttb.sptenmat):
            return "STM"
        if isinstance(obj, np.ndarray):
            return "A"
        if isinstance(obj, (list, tuple)):
            return "L"
        if is_sparse_matrix(obj):
            return "SP"
        return "X"

    def add(self, obj, groups_with: Tuple[int, ...] = (), want_id: Optional[int] = None) -> int:
        i = self.next_id if want_id is None or want_id in self.parent else int(want_id)
        self.next_id = max(self.next_id, i) + 1
        self.objs[i] = obj
        self.kinds[i] = self.kind_of(obj)
        self.parent[i] = i
        for g in groups_with:
            if g in self.parent:
                self.union(i, g)
        self.snaps[i] = self.snapshot(obj)
        return i

    def drop(self, i):
        for d in (self.objs, self.kinds, self.snaps):
            d.pop(i, None)
        # keep parent entry: group structure of survivors stays valid

    def ids(self, kind=None, pred=None) -> List[int]:
        out = []
        for i in sorted(self.objs):
            if kind is not None and self.kinds[i] not in (kind if isinstance(kind, tuple) else (kind,)):
                continue
            if pred is not None and not pred(self.objs[i]):
                continue
            out.append(i)
        return out

    # ---- buffers / snapshots
    def buffers(self, obj, label="") -> List[Tuple[str, np.ndarray]]:
        ttb = self.ttb
        out: List[Tuple[str, np.ndarray]] = []
        if isinstance(obj, np.ndarray):
            out.append((label or "array", obj))
        elif isinstance(obj, ttb.tensor):
            out.append((label + ".data", obj.data))
        elif isinstance(obj, ttb.sptensor):
            out.append((label + ".subs", obj.subs))
            out.append((label + ".vals", obj.vals))
        elif isinstance(obj, ttb.ktensor):
            out.append((label + ".weights", obj.weights))
            for n, f in enumerate(obj.factor_matrices):
                out.append((f"{label}.factor_matrices[{n}]", f))
        elif isinstance(obj, ttb.ttensor):
            out.extend(self.buffers(obj.core, label + ".core"))
            for n, f in enumerate(obj.factor_matrices):
                if is_sparse_matrix(f):
                    out.extend(self.buffers(f, f"{label}.factor_matrices[{n}]"))
                else:
                    out.append((f"{label}.factor_matrices[{n}]", f))
        elif isinstance(obj, ttb.sumtensor):
            for n, p in enumerate(obj.parts):
                out.extend(self.buffers(p, f"{label}.parts[{n}]"))
        elif isinstance(obj, ttb.tenmat):
            out.append((label + ".data", obj.data))
            out.append((label + ".rindices", obj.rindices))
            out.append((label + ".cindices", obj.cindices))
        elif isinstance(obj, ttb.sptenmat):
            out.append((label + ".subs", obj.subs))
            out.append((label + ".vals", obj.vals))
            out.append((label + ".rdims", obj.rdims))
            out.append((label + ".cdims", obj.cdims))
        elif isinstance(obj, (list, tuple)):
            for n, p in enumerate(obj):
                out.extend(self.buffers(p, f"{label}[{n}]"))
        elif isinstance(obj, dict):
            for k in sorted(obj, key=str):
                out.extend(self.buffers(obj[k], f"{label}[{k!r}]"))
        elif is_sparse_matrix(obj):
            for a in ("data", "row", "col", "indices", "indptr"):
                if hasattr(obj, a) and isinstance(getattr(obj, a), np.ndarray):
                    out.append((f"{label}.{a}", getattr(obj, a)))
        return [(lb, b) for lb, b in out if isinstance(b, np.ndarray)]

    def lists(self, obj) -> List[Any]:
        """Mutable python containers owned by the object (identity matters for slot replacement)."""
        ttb = self.ttb
        out = []
        if isinstance(obj, (ttb.ktensor, ttb.ttensor)) and isinstance(obj.factor_matrices, list):
            out.append(obj.factor_matrices)
        if isinstance(obj, ttb.sumtensor) and isinstance(obj.parts, list):
            out.append(obj.parts)
            for p in obj.parts:
                out.extend(self.lists(p))
        if isinstance(obj, ttb.ttensor):
            out.extend(self.lists(obj.core))
        if isinstance(obj, list):
            out.append(obj)
        return out

    def structure(self, obj) -> Any:
        ttb = self.ttb
        if isinstance(obj, (ttb.tensor, ttb.sptensor, ttb.ktensor, ttb.ttensor, ttb.sumtensor)):
            st: Any = [type(obj).__name__, tuple(int(s) for s in obj.shape)]
            if isinstance(obj, ttb.sumtensor):
                st.append([self.structure(p) for p in obj.parts])
            if isinstance(obj, ttb.ttensor):
                st.append(self.structure(obj.core))
            return st
        if isinstance(obj, ttb.tenmat):
            return ["tenmat", tuple(int(s) for s in obj.tshape), tuple(obj.shape)]
        if isinstance(obj, ttb.sptenmat):
            return ["sptenmat", tuple(int(s) for s in obj.tshape)]
        if isinstance(obj, (list, tuple)):
            return [type(obj).__name__, [self.structure(p) for p in obj]]
        if isinstance(obj, np.ndarray):
            return ["ndarray"]
        return [type(obj).__name__]

    def snapshot(self, obj) -> Any:
        bufs = []
        for lb, b in self.buffers(obj):
            bufs.append((lb, str(b.dtype), tuple(b.shape), np.array(b, copy=True, order="K").tobytes() if b.dtype != object else repr(b.tolist())))
        return (repr(self.structure(obj)), tuple(bufs))

    def changed(self, i) -> Optional[str]:
        now = self.snapshot(self.objs[i])
        old = self.snaps[i]
        if now == old:
            return None
        if now[0] != old[0]:
            return f"structure {old[0]} -> {now[0]}"
        a, b = old[1], now[1]
        if len(a) != len(b):
            return f"{len(a)} buffers -> {len(b)} buffers"
        for x, y in zip(a, b):
            if x != y:
                if x[:3] != y[:3]:
                    return f"buffer {x[0]}: {x[1]}{x[2]} -> {y[1]}{y[2]}"
                return f"buffer {x[0]} contents changed"
        return "changed"

    def resnap(self, i):
        self.snaps[i] = self.snapshot(self.objs[i])

    def shares(self, a, b) -> Optional[str]:
        """Name of a pair of buffers of objects a, b that share memory (or a shared list object)."""
        for la, ba in self.buffers(a):
            if ba.size == 0:
                continue
            for lb, bb in self.buffers(b):
                if bb.size == 0:
                    continue
                if np.may_share_memory(ba, bb) and np.shares_memory(ba, bb):
                    return f"{la} <-> {lb}"
        for x in self.lists(a):
            for y in self.lists(b):
                if x is y:
                    return "the same python list object"
        return None


class EngineB:
    name = "object-heap"

    @staticmethod
    def _is_guess(heap, step, operand_ids, o) -> bool:
        """The known finding is about the *initial guess* handed to the algorithm (or an object that shares its
        storage through a documented copy=False path) -- not about any other operand of the same call."""
        for k in step.get("guess_operands", ()):
            if 0 <= k < len(operand_ids) and heap.find(operand_ids[k]) == heap.find(o):
                return True
        return False

    def __init__(self, prop: str, steer: List[str]):
        import pyttb as ttb

        from . import catalog_b

        self.ttb = ttb
        self.prop = prop  # "C05" or "C19"
        self.steer = set(steer)
        self.cat = catalog_b.Catalog(self)

    # ------------------------------------------------------------- generation
    def run(self, run_seed: int, tier: str) -> RunResult:
        st = Streams(run_seed)
        sw = st.get("swarm")
        g = st.get("gen")
        res = RunResult()
        res.init = {
            "n_steps": sw.randint(8, 25),
            "p_perturb": sw.choice([0.1, 0.2, 0.3]) if self.prop == "C05" else 0.05,
            "p_bad": 0.0 if self.prop == "C05" else sw.choice([0.4, 0.6]),
            "np_seed": st.u32("np"),
        }
        w = self._start(res.init)
        w["recording"] = True
        # initial population: two shape families
        fam = self.cat.families(sw)
        w["families"] = fam
        w["heap"].families = fam
        pre = self.cat.populate(g, fam)
        ok = True
        for step in pre:
            res.steps.append(step)
            if not self._exec(w, step, len(res.steps) - 1, res):
                ok = False
                break
        n = 0
        while ok and n < res.init["n_steps"]:
            n += 1
            steps = self._gen(w, g, res.init)
            for step in steps:
                res.steps.append(step)
                if not self._exec(w, step, len(res.steps) - 1, res):
                    ok = False
                    break
        return self._finish(res)

    def _finish(self, res):
        if self.prop == "C05":
            res.nontrivial = res.stats.get("ops_checked", 0) >= 3 and (res.stats.get("perturbations", 0) >= 1 or res.stats.get("ops_checked", 0) >= 6)
        else:
            res.nontrivial = res.stats.get("malformed_checked", 0) >= 2
        return res

    def replay(self, rec) -> RunResult:
        res = RunResult()
        res.init = rec["init"]
        w = self._start(rec["init"])
        for i, step in enumerate(rec["steps"]):
            res.steps.append(step)
            if not self._exec(w, step, i, res):
                break
        return self._finish(res)

    def _start(self, init):
        return {"heap": Heap(self.ttb), "init": init, "call_no": 0}

    def _gen(self, w, g, init) -> List[Dict[str, Any]]:
        heap: Heap = w["heap"]
        for _ in range(30):
            r = g.random()
            if r < init["p_bad"]:
                steps = self.cat.gen_bad(g, heap)
            elif r < init["p_bad"] + init["p_perturb"] and heap.objs:
                steps = self._gen_perturb(g, heap)
            else:
                steps = self.cat.gen_op(g, heap)
            if steps:
                for s in steps:
                    s.setdefault("tolerate", sorted(self.steer))
                return steps
        return []

    def _gen_perturb(self, g, heap: Heap):
        ids = [i for i in heap.ids() if heap.buffers(heap.objs[i])]
        if not ids:
            return None
        i = g.choice(ids)
        bufs = heap.buffers(heap.objs[i])
        cands = [k for k, (lb, b) in enumerate(bufs) if b.size > 0]
        if not cands:
            return None
        k = g.choice(cands)
        b = bufs[k][1]
        pos = g.randrange(b.size)
        return [{"op": "perturb", "target": i, "buffer": k, "pos": pos, "how": g.choice(["bump", "bump", "flip"])}]

    # -------------------------------------------------------------- execution
    def _viol(self, prop, oracle, op, i, detail):
        return Violation(prop, oracle, op, i, detail)

    def _exec(self, w, step, i, res: RunResult) -> bool:
        heap: Heap = w["heap"]
        op = step["op"]
        res.bump("steps")
        try:
            with warnings.catch_warnings():
                warnings.simplefilter("ignore")
                v = self._exec_inner(w, heap, step, i, res)
        except _Skip:
            res.bump("skipped")
            res.events.append([i, op, "skip"])
            return True
        if v is not None:
            res.violation = v
            res.events.append([i, op, "violation", v.oracle])
            return False
        return True

    def _exec_inner(self, w, heap: Heap, step, i, res) -> Optional[Violation]:
        op = step["op"]
        if op == "perturb":
            return self._exec_perturb(heap, step, i, res)
        if op.startswith("bad:"):
            return self._exec_bad(w, heap, step, i, res)
        spec = self.cat.ops.get(op)
        if spec is None:
            raise _Skip()
        operand_ids = [int(x) for x in step.get("operands", [])]
        if any(o not in heap.objs for o in operand_ids):
            raise _Skip()
        if not spec.applicable(heap, operand_ids, step):
            raise _Skip()
        operands = [heap.objs[o] for o in operand_ids]
        w["call_no"] += 1
        res.bump("op:" + op)
        tolerate = set(step.get("tolerate", []))
        try:
            with World(np_seed=(w["init"]["np_seed"] + w["call_no"]) & 0xFFFFFFFF, clock=SimClock({"tick": 1e-3})):
                result = spec.run(self, operands, step)
        except _Skip:
            raise
        except Exception as e:  # noqa: BLE001
            # an admissible request that raises is not a C05 matter; but operands must still be intact
            for o in operand_ids:
                ch = heap.changed(o)
                if ch is not None and not (spec.inplace and o == operand_ids[0]):
                    if spec.known_mutates and spec.known_mutates in tolerate and self._is_guess(heap, step, operand_ids, o):
                        res.bump("probe:known_" + spec.known_mutates)
                        continue
                    if self.prop == "C05":
                        return self._viol("C05", "operands_unchanged", op, i, f"{op} raised {type(e).__name__} and operand #{o} ({heap.kinds[o]}) changed: {ch}")
            res.bump("probe:op_raised")
            res.bump("raised:" + op + ":" + type(e).__name__)
            res.events.append([i, op, "raised", type(e).__name__])
            for o in heap.ids():
                heap.resnap(o)
            return None
        prop = "C05"
        # 1. operands unchanged (receiver of an in-place operation excepted)
        for k, o in enumerate(operand_ids):
            if spec.inplace and k == 0:
                continue
            ch = heap.changed(o)
            if ch is not None:
                # a change that reaches an operand through a *permitted* shared buffer of the receiver
                if spec.inplace and heap.find(o) == heap.find(operand_ids[0]):
                    heap.resnap(o)
                    continue
                if spec.known_mutates and spec.known_mutates in tolerate and self._is_guess(heap, step, operand_ids, o):
                    res.bump("probe:known_" + spec.known_mutates)
                    for q in heap.ids():
                        if heap.find(q) == heap.find(o):
                            heap.resnap(q)
                    continue
                if self.prop == "C05":
                    return self._viol(prop, "operands_unchanged", op, i, f"{op}({self._describe(step)}) modified operand #{k} ({heap.kinds[o]}): {ch}")
                heap.resnap(o)
        # 4. in-place: nothing outside the receiver's group changes, and the receiver does not start to share
        #    storage with another operand (e.g. by keeping a view of a data vector it was given)
        if spec.inplace:
            recv = operand_ids[0]
            for o in heap.ids():
                if o == recv or heap.find(o) == heap.find(recv):
                    continue
                sh = heap.shares(heap.objs[recv], heap.objs[o])
                if sh is not None and self.prop == "C05":
                    return self._viol(prop, "result_is_independent", op, i, f"after in-place {op}({self._describe(step)}) the receiver #{recv} shares memory with live object #{o} ({heap.kinds[o]}): {sh}")
            for o in heap.ids():
                if heap.find(o) == heap.find(recv):
                    heap.resnap(o)
                    continue
                ch = heap.changed(o)
                if ch is not None and self.prop == "C05":
                    return self._viol(prop, "inplace_changes_receiver_only", op, i, f"in-place {op} on #{recv} changed unrelated object #{o} ({heap.kinds[o]}): {ch}")
        # 2. result independent of everything outside its permitted group
        new_ids: List[int] = []
        outs = list(step.get("out") or [])
        part_no = -1
        if result is not None and not (spec.inplace and result is operands[0]):
            parts = self.cat.split_result(spec, result, operands, step)
            for obj, allowed in parts:
                if isinstance(obj, JudgeOnly):
                    for o in heap.ids():
                        sh = heap.shares(obj.arr, heap.objs[o])
                        if sh is not None and op == "cp_als" and "cp_als_params_echo_optdims" in tolerate and any(step.get(nm) is not None and o == operand_ids[step[nm]] for nm in ("optdims_operand", "dimorder_operand")):
                            # recorded known finding: output["params"]["optdims"] / ["dimorder"] is the caller's own array
                            res.bump("probe:known_cp_als_params_echo_optdims")
                            continue
                        if sh is not None and self.prop == "C05":
                            return self._viol(prop, "result_is_independent", op, i, f"{op}({self._describe(step)}): an array of the returned information dictionary shares memory with live object #{o} ({heap.kinds[o]}): {sh}")
                    res.bump("probe:information_dictionary_array_judged")
                    continue
                part_no += 1
                if obj is None or isinstance(obj, (int, float, bool, np.generic, str)):
                    continue
                if not heap.buffers(obj):
                    continue
                allowed_ids = [operand_ids[k] for k in allowed if k < len(operand_ids)]
                ident = [o for o in operand_ids if heap.objs[o] is obj]
                if ident:
                    if not set(ident) & set(allowed_ids) and self.prop == "C05":
                        return self._viol(prop, "result_is_independent", op, i, f"{op}({self._describe(step)}) returned its operand #{ident[0]} itself")
                    continue
                allowed_groups = {heap.find(a) for a in allowed_ids}
                for o in heap.ids():
                    if heap.find(o) in allowed_groups:
                        continue
                    sh = heap.shares(obj, heap.objs[o])
                    if sh is not None:
                        key = spec.known_alias
                        if key and key in tolerate:
                            res.bump("probe:known_" + key)
                            allowed_groups.add(heap.find(o))
                            allowed_ids.append(o)
                            continue
                        if self.prop == "C05":
                            return self._viol(
                                prop,
                                "result_is_independent",
                                op,
                                i,
                                f"{op}({self._describe(step)}): result ({heap.kind_of(obj)}) shares memory with live object #{o} ({heap.kinds[o]}): {sh}",
                            )
                        allowed_ids.append(o)
                if self._too_big(obj):
                    # chains of outer products grow without bound; a result of thousands of cells or many modes is judged
                    # (above) but not kept: operations that enumerate all cells pairwise would take minutes on it
                    res.bump("probe:result_too_large_to_keep")
                    continue
                want = outs[part_no] if part_no < len(outs) else None
                nid = heap.add(obj, tuple(allowed_ids), want)
                while len(outs) <= part_no:
                    outs.append(None)
                outs[part_no] = nid
                new_ids.append(nid)
        if new_ids and w.get("recording"):
            step["out"] = outs  # ids are fixed once, while the run is generated; a replay never rewrites its record
        if self.prop != "C05":
            for q in heap.ids():  # C19 histories judge only the malformed steps; keep snapshots current
                heap.resnap(q)
        res.bump("ops_checked")
        res.states.add(H(op, tuple(sorted(heap.kinds.values())), len({heap.find(o) for o in heap.ids()})) & 0xFFFFFFFF)
        res.events.append([i, op, [heap.kinds[n] for n in new_ids]])
        self._evict(heap, step)
        return None

    @staticmethod
    def _too_big(obj) -> bool:
        sh = getattr(obj, "tshape", None) or getattr(obj, "shape", None)
        try:
            dims = [int(v) for v in sh]
        except Exception:  # noqa: BLE001
            return False
        return len(dims) > 6 or int(np.prod(dims, dtype=object)) > 2500

    def _describe(self, step) -> str:
        d = {k: v for k, v in step.items() if k not in ("op", "tolerate", "data", "operands")}
        s = repr(d)
        return (s[:200] + "...") if len(s) > 200 else s

    def _evict(self, heap: Heap, step):
        while len(heap.objs) > MAX_HEAP:
            # evict the oldest loose array / list first, then the oldest object
            loose = [i for i in heap.ids(("A", "L", "SP", "X"))]
            victim = loose[0] if loose else heap.ids()[0]
            heap.drop(victim)

    def _exec_perturb(self, heap: Heap, step, i, res) -> Optional[Violation]:
        t = step["target"]
        if t not in heap.objs:
            raise _Skip()
        bufs = heap.buffers(heap.objs[t])
        if step["buffer"] >= len(bufs):
            raise _Skip()
        lb, b = bufs[step["buffer"]]
        if b.size == 0 or step["pos"] >= b.size or not b.flags.writeable or b.dtype.kind not in "biuf":
            raise _Skip()  # (object arrays -- e.g. an array of scipy matrices -- have no element to write a number into)
        idx = np.unravel_index(step["pos"], b.shape)
        integral = b.dtype.kind in "iu"
        if b.dtype.kind == "b":
            b[idx] = not b[idx]
        elif integral:
            # move an index within range: swap with another entry of the same column where possible
            col = b[(slice(None),) + idx[1:]] if b.ndim >= 1 else b
            others = [int(v) for v in np.unique(col) if v != b[idx]]
            if not others:
                raise _Skip()
            b[idx] = others[0]
        else:
            b[idx] = b[idx] + 1.5 if step["how"] == "bump" else -b[idx] - 0.25
        res.bump("perturbations")
        res.bump("fault:perturb_" + heap.kinds[t])
        grp = heap.find(t)
        for o in heap.ids():
            if heap.find(o) == grp:
                heap.resnap(o)
                continue
            ch = heap.changed(o)
            if ch is not None:
                if self.prop == "C05":
                    return self._viol("C05", "write_not_visible_through_other_object", "perturb", i, f"in-place write into {lb} of #{t} ({heap.kinds[t]}) is visible in #{o} ({heap.kinds[o]}), which no documented no-copy path links to it: {ch}")
                heap.resnap(o)
        if any(heap.find(o) == grp and o != t for o in heap.ids()):
            res.bump("probe:perturbation_inside_alias_group")
        res.events.append([i, "perturb", heap.kinds[t], lb])
        return None

    def _exec_bad(self, w, heap: Heap, step, i, res) -> Optional[Violation]:
        op = step["op"]
        spec = self.cat.bad.get(op)
        if spec is None:
            raise _Skip()
        operand_ids = [int(x) for x in step.get("operands", [])]
        if any(o not in heap.objs for o in operand_ids):
            raise _Skip()
        if not spec.applicable(heap, operand_ids, step):
            raise _Skip()
        operands = [heap.objs[o] for o in operand_ids]
        w["call_no"] += 1
        res.bump("fault:" + op)
        tolerate = set(step.get("tolerate", []))
        try:
            with World(np_seed=(w["init"]["np_seed"] + w["call_no"]) & 0xFFFFFFFF, clock=SimClock({"tick": 1e-3})):
                out = spec.run(self, operands, step)
            raised = None
        except _Skip:
            raise
        except Exception as e:  # noqa: BLE001
            raised = e
            out = None
        if raised is None:
            known = spec.known(operands, step) if callable(spec.known) else spec.known
            if known and known in tolerate:
                res.bump("probe:known_" + known)
                for o in heap.ids():
                    heap.resnap(o)
                return None
            if self.prop == "C19":
                return self._viol("C19", "malformed_request_is_rejected", op, i, f"{op}({self._describe(step)}) returned {type(out).__name__} instead of raising")
            res.bump("probe:malformed_accepted")
            for o in heap.ids():
                heap.resnap(o)
            return None
        for o in heap.ids():
            ch = heap.changed(o)
            if ch is not None:
                if self.prop == "C19":
                    return self._viol("C19", "rejected_call_leaves_receiver_unchanged", op, i, f"{op}({self._describe(step)}) raised {type(raised).__name__} but object #{o} ({heap.kinds[o]}) changed: {ch}")
                heap.resnap(o)
        res.bump("malformed_checked")
        res.states.add(H(op, tuple(heap.kinds[o] for o in operand_ids), tuple(tuple(getattr(heap.objs[o], "shape", ())) for o in operand_ids)) & 0xFFFFFFFF)
        res.events.append([i, op, type(raised).__name__])
        return None
