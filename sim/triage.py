"""Developer tool: run N seeds in-process and print violation classes with counts and a
minimised example of each.  Not a registered command.

usage: python -m sim.triage <prop> <n_runs> [tier]
"""

import collections
import json
import os
import sys

from sim import driver
from sim.kernel import H


def main():
    prop = sys.argv[1]
    n = int(sys.argv[2])
    tier = sys.argv[3] if len(sys.argv) > 3 else "quick"
    root = int(os.environ.get("VERIF_SEED", "0"))
    driver.import_sut()
    eng = driver._get_engine(prop)
    classes = collections.Counter()
    first = {}
    stats = collections.Counter()
    nontrivial = 0
    for r in range(n):
        res, status = driver._guarded(lambda: driver.run_one(eng, prop, root, r, tier))
        if status != "ok":
            classes[("TIMEOUT",)] += 1
            continue
        stats.update(res.stats)
        nontrivial += bool(getattr(res, "nontrivial", False))
        if res.violation is not None:
            k = (res.violation.oracle, res.violation.op)
            classes[k] += 1
            if k not in first:
                rec = driver._record_of(prop, root, r, res)
                rec["violation"] = res.violation.to_json()
                first[k] = rec
    print(f"runs={n} clean={n - sum(classes.values())} nontrivial={nontrivial}")
    for k, v in sorted(stats.items()):
        print(f"   {k}: {v}")
    for k, c in classes.most_common():
        print(f"== {c:5d}  {k}")
        if k in first:
            mini = driver.minimise(eng, first[k])
            print("   run", mini["run"], "init", json.dumps({a: mini["init"][a] for a in ("shape", "subs", "vals") if a in mini["init"]}))
            for s in mini["steps"]:
                print("   step", json.dumps(s)[:400])
            print("   ->", mini["violation"]["detail"][:700])
            dump = os.environ.get("TRIAGE_DUMP")
            if dump:
                os.makedirs(dump, exist_ok=True)
                fn = os.path.join(dump, f"{prop}-{k[0]}-{k[1].replace(':', '_')}.json")
                with open(fn, "w") as f:
                    json.dump(mini, f, indent=1, sort_keys=True)
                print("   dumped", fn)


if __name__ == "__main__":
    main()
