"""Kernel of the deterministic simulator: seed tree, canonical encoding, digests,
run records, ddmin, replay files.

Nothing in this module reads a real clock or the process-global random state; every
random choice made by the harness comes from ``Streams`` (a tree of
``random.Random`` objects keyed by SHA-256 of ``(run_seed, label)``), so one integer
decides a run and ``PYTHONHASHSEED`` cannot leak in.
"""

from __future__ import annotations

import hashlib
import json
import math
import random
from typing import Any, Callable, Dict, Iterable, List, Optional

import numpy as np

FORMAT = 1


# --------------------------------------------------------------------------- seeds
def H(*parts: Any) -> int:
    """64-bit integer from SHA-256 over the canonical string of ``parts``."""
    s = "\x1f".join(str(p) for p in parts).encode()
    return int.from_bytes(hashlib.sha256(s).digest()[:8], "big")


class Streams:
    """Independent labelled sub-streams of one run seed."""

    def __init__(self, run_seed: int):
        self.run_seed = int(run_seed)
        self._cache: Dict[str, random.Random] = {}

    def get(self, label: str) -> random.Random:
        r = self._cache.get(label)
        if r is None:
            r = random.Random(H(self.run_seed, label))
            self._cache[label] = r
        return r

    def u32(self, label: str, k: int = 0) -> int:
        """A 32-bit value (e.g. for ``np.random.seed``) that does not consume a stream."""
        return H(self.run_seed, label, k) & 0xFFFFFFFF


# ------------------------------------------------------------------------ encoding
def enc(x: Any) -> Any:
    """Encode a concrete python/numpy value as JSON-able data, bit-faithfully."""
    if x is None or isinstance(x, (bool, str)):
        return x
    if isinstance(x, (np.bool_,)):
        return bool(x)
    if isinstance(x, (int,)):
        return x
    if isinstance(x, np.integer):
        return {"__npi__": [str(x.dtype), int(x)]}
    if isinstance(x, float):
        if math.isnan(x) or math.isinf(x):
            return {"__f__": repr(x)}
        return x
    if isinstance(x, np.floating):
        return {"__npf__": [str(x.dtype), float(x).hex()]}
    if isinstance(x, slice):
        return {"__slice__": [enc(x.start), enc(x.stop), enc(x.step)]}
    if isinstance(x, tuple):
        return {"__tuple__": [enc(v) for v in x]}
    if isinstance(x, list):
        return [enc(v) for v in x]
    if isinstance(x, dict):
        return {"__dict__": [[enc(k), enc(v)] for k, v in x.items()]}
    if isinstance(x, np.ndarray):
        order = "F" if (x.flags["F_CONTIGUOUS"] and not x.flags["C_CONTIGUOUS"]) else "C"
        flat = x.ravel(order="C")
        if x.dtype.kind == "f":
            data = [float(v).hex() for v in flat]
        elif x.dtype.kind in "iu":
            data = [int(v) for v in flat]
        elif x.dtype.kind == "b":
            data = [bool(v) for v in flat]
        elif x.dtype.kind == "c":
            data = [[float(v.real).hex(), float(v.imag).hex()] for v in flat]
        else:
            data = [enc(v) for v in flat.tolist()]
        return {"__nd__": [str(x.dtype), list(x.shape), order, data]}
    raise TypeError(f"enc: unsupported {type(x)!r}")


def dec(x: Any) -> Any:
    if isinstance(x, list):
        return [dec(v) for v in x]
    if isinstance(x, dict):
        if "__npi__" in x:
            dt, v = x["__npi__"]
            return np.dtype(dt).type(v)
        if "__f__" in x:
            return float(x["__f__"])
        if "__npf__" in x:
            dt, v = x["__npf__"]
            return np.dtype(dt).type(float.fromhex(v))
        if "__slice__" in x:
            a, b, c = x["__slice__"]
            return slice(dec(a), dec(b), dec(c))
        if "__tuple__" in x:
            return tuple(dec(v) for v in x["__tuple__"])
        if "__dict__" in x:
            return {dec(k): dec(v) for k, v in x["__dict__"]}
        if "__nd__" in x:
            dt, shape, order, data = x["__nd__"]
            dtype = np.dtype(dt)
            if dtype.kind == "f":
                vals = [float.fromhex(v) for v in data]
            elif dtype.kind == "c":
                vals = [complex(float.fromhex(a), float.fromhex(b)) for a, b in data]
            elif dtype.kind == "O":
                vals = [dec(v) for v in data]
            else:
                vals = data
            a = np.array(vals, dtype=dtype).reshape(shape)
            if order == "F":
                a = np.asfortranarray(a)
            return a
        return {k: dec(v) for k, v in x.items()}
    return x


def canon(x: Any) -> str:
    return json.dumps(x, sort_keys=True, separators=(",", ":"), allow_nan=True)


def digest_of(x: Any) -> str:
    return hashlib.sha256(canon(x).encode()).hexdigest()


def arr_digest(a: np.ndarray) -> str:
    """Digest of an array's logical content (dtype, shape, values), layout-free."""
    a = np.asarray(a)
    h = hashlib.sha256()
    h.update(str(a.dtype).encode())
    h.update(str(a.shape).encode())
    h.update(np.ascontiguousarray(a).tobytes())
    return h.hexdigest()[:16]


# ------------------------------------------------------------------------- results
class Violation:
    """A property violation observed at one step of a run."""

    def __init__(self, prop: str, oracle: str, op: str, step: int, detail: str):
        self.prop = prop
        self.oracle = oracle
        self.op = op
        self.step = step
        self.detail = detail

    @property
    def klass(self):
        return (self.prop, self.oracle, self.op)

    def to_json(self):
        return {
            "property": self.prop,
            "oracle": self.oracle,
            "op": self.op,
            "step": self.step,
            "detail": self.detail[:2000],
        }

    def __repr__(self):
        return f"Violation({self.prop},{self.oracle},{self.op},step={self.step}: {self.detail[:300]})"


class RunResult:
    def __init__(self):
        self.init: Dict[str, Any] = {}  # concrete initial configuration (JSON-able)
        self.steps: List[Dict[str, Any]] = []  # concrete executed steps (JSON-able)
        self.events: List[Any] = []  # what was observed (JSON-able), digested
        self.violation: Optional[Violation] = None
        self.stats: Dict[str, int] = {}
        self.states: set = set()  # abstract state keys visited
        self.sim_seconds: float = 0.0

    def bump(self, key: str, n: int = 1):
        self.stats[key] = self.stats.get(key, 0) + n

    def digest(self) -> str:
        return digest_of({"init": self.init, "steps": self.steps, "events": self.events})


# --------------------------------------------------------------------------- ddmin
def ddmin(items: List[Any], fails: Callable[[List[Any]], bool], max_tests: int = 400) -> List[Any]:
    """Classic delta debugging (complement removal); ``fails(items)`` is assumed True."""
    tests = 0
    n = 2
    items = list(items)
    while len(items) >= 2 and tests < max_tests:
        chunk = max(1, len(items) // n)
        subsets = [items[i : i + chunk] for i in range(0, len(items), chunk)]
        reduced = False
        for i in range(len(subsets)):
            comp = [x for j, s in enumerate(subsets) if j != i for x in s]
            tests += 1
            if comp and fails(comp):
                items = comp
                n = max(n - 1, 2)
                reduced = True
                break
            if tests >= max_tests:
                break
        if not reduced:
            if n >= len(items):
                break
            n = min(len(items), n * 2)
    # final one-by-one pass
    i = 0
    while i < len(items) and tests < max_tests and len(items) > 1:
        cand = items[:i] + items[i + 1 :]
        tests += 1
        if fails(cand):
            items = cand
        else:
            i += 1
    return items


def weighted(rng: random.Random, table: Iterable) -> Any:
    table = list(table)
    tot = sum(w for _, w in table)
    x = rng.random() * tot
    acc = 0.0
    for v, w in table:
        acc += w
        if x < acc:
            return v
    return table[-1][0]
