"""Engine E -- ``generator-world`` (C20): seed search over the stream-dependent generators
(sptenrand, sptensor.from_function, tenrand, ktensor.from_function with a random function)
and direct oracles for the deterministic ones (tenones, tenzeros, tendiag, teneye,
sptendiag, tensor.from_function, sptensor.from_aggregator) in the same runs.

The global numpy stream is the only nondeterminism; it is seeded per call from the run's
seed tree, and every stream-dependent call is made twice under the same seed.
"""

from __future__ import annotations

import itertools
import math
import warnings
from typing import Any, Dict, List, Optional

import numpy as np

from .kernel import RunResult, Streams, Violation, arr_digest, dec, enc, weighted
from .world import rng_state_digest

OPS = ["tenones", "tenzeros", "tenrand", "tendiag", "teneye", "tensor_from_function", "sptenrand", "sp_from_function", "sptendiag", "from_aggregator", "k_from_function"]


def wellformed(S, shape) -> Optional[str]:
    subs = np.asarray(S.subs)
    vals = np.asarray(S.vals)
    if tuple(int(s) for s in S.shape) != tuple(shape):
        return f"shape {tuple(S.shape)} but requested {tuple(shape)}"
    if subs.size == 0 and vals.size == 0:
        return None
    if subs.ndim != 2 or subs.shape[1] != len(shape):
        return f"subs has shape {subs.shape}"
    if vals.reshape(-1).shape[0] != subs.shape[0]:
        return f"{subs.shape[0]} subscripts but {vals.size} values"
    if subs.dtype.kind not in "iu":
        return f"subscripts have dtype {subs.dtype}"
    if (subs < 0).any() or (subs >= np.array(shape)).any():
        return "subscript out of range"
    if len({tuple(r) for r in subs.tolist()}) != subs.shape[0]:
        return "duplicate subscripts"
    return None


class EngineE:
    name = "generator-world"

    def __init__(self, prop: str, steer: List[str]):
        import pyttb as ttb

        self.ttb = ttb
        self.prop = prop
        self.steer = set(steer)

    # ------------------------------------------------------------- generation
    def _shape(self, g, nmax=4, smax=4):
        N = weighted(g, [(1, 1), (2, 3), (3, 4), (4, 1)])
        N = min(N, nmax)
        return [g.randint(1, smax) for _ in range(N)]

    def _gen_step(self, g, seed) -> Dict[str, Any]:
        op = weighted(
            g,
            [("tenones", 1), ("tenzeros", 1), ("tenrand", 2), ("tendiag", 3), ("teneye", 1), ("tensor_from_function", 2), ("sptenrand", 5), ("sp_from_function", 5), ("sptendiag", 2), ("from_aggregator", 5), ("k_from_function", 2)],
        )
        step: Dict[str, Any] = {"op": op, "np_seed": seed, "tolerate": sorted(self.steer)}
        if op in ("tenones", "tenzeros", "tenrand"):
            step["shape"] = self._shape(g)
            step["order"] = g.choice(["F", "C"])
        elif op in ("tendiag", "sptendiag"):
            n = g.randint(1, 4)
            els = [float(g.choice([1, 2, 3, -1.5, 0.25, 7])) for _ in range(n)]
            if op == "sptendiag" and g.random() < 0.3:
                els[g.randrange(n)] = 0.0
            step["elements"] = els
            step["order"] = g.choice(["F", "C"])
            k = g.choice(["none", "exact", "shorter", "longer", "mixed"])
            N = g.randint(1, 3) if k != "none" else n
            if k == "none":
                step["shape"] = None
                if n > 3:
                    step["elements"] = els[:3]
            elif k == "exact":
                step["shape"] = [n] * N
            elif k == "shorter":
                step["shape"] = [max(1, n - g.randint(1, 2)) for _ in range(N)]
            elif k == "longer":
                step["shape"] = [n + g.randint(1, 2) for _ in range(N)]
            else:
                step["shape"] = [max(1, n + g.randint(-2, 2)) for _ in range(N)]
        elif op == "teneye":
            step["ndims"], step["size"] = g.choice([(2, 1), (2, 2), (2, 3), (2, 4), (4, 1), (4, 2), (4, 3), (6, 2)])
            step["xs"] = [[round(g.uniform(-1, 1), 6) or 0.5 for _ in range(step["size"])] for _ in range(3)]
            step["order"] = g.choice(["F", "C"])
        elif op == "tensor_from_function":
            step["shape"] = self._shape(g)
            step["fn"] = g.choice(["arange_1d", "arange_F", "arange_C", "ones_F", "const_1d", "arange_strided", "arange_window"])
        elif op in ("sptenrand", "sp_from_function"):
            shape = self._shape(g)
            size = int(np.prod(shape))
            if size < 2:
                shape = [2] + shape[1:]
                size = int(np.prod(shape))
            if g.random() < 0.1:
                shape = g.choice([[2048, 2048, 2048], [70000, 70000], [1000, 1000, 1000, 1000]])
                size = int(np.prod([int(v) for v in shape]))
                step["shape"] = shape
                step["nonzeros"] = g.randint(1, 6)
                step["density"] = None
                if op == "sp_from_function":
                    step["fn"] = g.choice(["arange_plus", "ones", "random_sample"])
                return step
            step["shape"] = shape
            mode = g.choice(["count", "count", "density"])
            if mode == "count":
                hi = size - 1
                step["nonzeros"] = weighted(g, [(0, 1), (1, 2), (g.randint(1, max(1, hi)), 6), (hi, 2)])
                step["density"] = None
            else:
                step["density"] = g.choice([0.05, 0.1, 0.25, 0.5, 0.75, 0.9, 0.99])
                step["nonzeros"] = None
            if op == "sp_from_function":
                step["fn"] = g.choice(["arange_plus", "ones", "random_sample"])
        elif op == "from_aggregator" and g.random() < 0.012:
            # a very long input (tens of thousands of rows over a small tensor), regenerated from its recipe
            shape = self._shape(g, nmax=3, smax=4)
            step["gen_rows"] = {"n": g.randint(66000, 90000), "seed": g.randrange(10**6)}
            step["subs"] = None
            step["vals"] = None
            step["shape"] = shape
            step["reducer"] = g.choice(["sum", "default", "min", "max", "mean", "mean", "np.max", "first", "last", "callable_first", "callable_last"])
        elif op == "from_aggregator":
            shape = self._shape(g, smax=3)
            huge = g.random() < 0.2
            narrow = False
            if huge:
                # sparse tensors of huge declared shape with a handful of entries are ordinary use
                shape = g.choice([[2048, 2048, 2048], [70000, 70000], [2**21, 2**21, 2**21], [3, 2**40], [1290, 1290, 1291]])
                corner = [[0] * len(shape), [s - 1 for s in shape], [s // 2 for s in shape], [s // 2 if i else 0 for i, s in enumerate(shape)], [1] + [0] * (len(shape) - 1)]
                k = g.randint(2, 4)
                chosen = [tuple(c) for c in g.sample(corner, k)]
                step["subs_dtype"] = g.choice(["int32", "int64"]) if max(shape) < 2**31 else "int64"
            elif g.random() < 0.06:
                # subscripts in a narrow integer type that reach the largest value of that type
                tname = g.choice(["uint8", "int8", "uint16", "int16"])
                top = int(np.iinfo(tname).max)
                shape = [g.randint(1, 3) for _ in range(g.randint(1, 3))]
                j = g.randrange(len(shape))
                shape[j] = top + 1
                chosen = list({tuple((top - g.choice([0, 0, 1])) if d == j else g.randrange(shape[d]) for d in range(len(shape))) for _ in range(g.randint(1, 3))})
                chosen.sort()
                step["subs_dtype"] = tname
                narrow = True
            else:
                positions = list(itertools.product(*[range(s) for s in shape]))
                k = g.randint(1, min(4, len(positions)))
                chosen = g.sample(positions, k)
                # the integer type the caller happens to hold the subscripts in
                step["subs_dtype"] = g.choice(["int64", "int64", "int64", "int32", "uint8", "uint16", "uint32", "uint64", "int8", "int16"])
            rows = []
            many = g.random() < 0.25  # long inputs: dozens of rows over a few positions
            for p in chosen:
                for _ in range(weighted(g, [(1, 4), (2, 3), (3, 2), (4, 1)]) if not many else g.randint(3, 20)):
                    rows.append(list(p))
            g.shuffle(rows)
            vals = [float(g.choice([-2, -1, -0.5, 0.25, 0.5, 1, 1, 2, 3])) for _ in rows]
            if many and g.random() < 0.7:
                vals = [float(k + 1) * g.choice([1.0, 1.0, -1.0]) for k in range(len(rows))]  # all different: which value was taken is visible
            if g.random() < 0.2:
                # tiny but non-zero magnitudes: only an exact zero result may be dropped
                # (integer multiples of a power of two, so that sums are exact whatever the summation order)
                tiny = g.choice([2.0**-60, 2.0**-200, 2.0**-1000, 2.0**-1074])
                vals = [float(g.choice([-2, -1, 1, 1, 2, 3])) * tiny for _ in vals]
            if g.random() < 0.3 and len(rows) >= 2:
                # a group whose sum is zero
                i = g.randrange(len(rows))
                js = [j for j in range(len(rows)) if rows[j] == rows[i]]
                if len(js) >= 2:
                    vals[js[0]] = 1.0
                    vals[js[1]] = -1.0
                    for j in js[2:]:
                        vals[j] = 0.0
            if g.random() < 0.1:
                # whole-number values held in a narrow integer type; groups whose sum leaves the range of that type
                vt = g.choice(["int8", "uint8", "int16", "int32"])
                hi = {"int8": 120, "uint8": 250, "int16": 30000, "int32": 2_000_000_000}[vt]
                lo = 1 if vt == "uint8" else -hi
                vals = [float(g.choice([hi, hi - 1, hi // 2, 3, 1] + ([lo, -3] if lo < 0 else []))) for _ in rows]
                if vt in ("int8", "uint8") or len(rows) <= 4:
                    step["vals_dtype"] = vt
            step["subs"] = rows
            step["vals"] = vals
            if narrow:
                step["shape"] = g.choice([None, shape])
            else:
                step["shape"] = shape if huge else g.choice([None, shape, [s + g.randint(0, 1) for s in shape]])
            step["reducer"] = g.choice(["sum", "sum", "default", "min", "max", "mean", "np.max", "np.sum", "prod", "first", "last", "callable_first", "callable_last"])
            if step.get("vals_dtype"):
                step["reducer"] = g.choice(["sum", "sum", "default", "default", "max", "min", "np.sum"])
        else:  # k_from_function
            step["shape"] = self._shape(g)
            step["rank"] = g.randint(1, 3)
            step["fn"] = g.choice(["arange_plus", "ones", "zeros", "random_sample"])
        return step

    def run(self, run_seed: int, tier: str) -> RunResult:
        st = Streams(run_seed)
        g = st.get("gen")
        res = RunResult()
        res.init = {}
        n = st.get("swarm").randint(6, 20)
        stop = False
        for k in range(n):
            step = self._gen_step(g, st.u32("np", k))
            # the application edits, in place, what a generator handed it; and asks for the same thing again
            step["scribble"] = g.random() < 0.3
            again = [dict(step, scribble=g.random() < 0.3) for _ in range(weighted(g, [(0, 6), (1, 3), (2, 1)]))]
            for stp in [step] + again:
                res.steps.append(stp)
                if not self._exec(stp, len(res.steps) - 1, res):
                    stop = True
                    break
            if stop:
                break
        return self._finish(res)

    def _finish(self, res):
        res.nontrivial = res.stats.get("calls_checked", 0) >= 3
        return res

    def replay(self, rec) -> RunResult:
        res = RunResult()
        res.init = rec["init"]
        for i, step in enumerate(rec["steps"]):
            res.steps.append(step)
            if not self._exec(step, i, res):
                break
        return self._finish(res)

    # ------------------------------------------------------------------ exec
    def _fn(self, name, calls):
        def arange_plus(s):
            calls.append(tuple(int(v) for v in s))
            n = int(np.prod(s))
            return (np.arange(n, dtype=float) + 0.5).reshape(s)

        def ones(s):
            calls.append(tuple(int(v) for v in s))
            return np.ones(s)

        def zeros(s):
            calls.append(tuple(int(v) for v in s))
            return np.zeros(s)

        def random_sample(s):
            calls.append(tuple(int(v) for v in s))
            return np.random.random_sample(s)

        return {"arange_plus": arange_plus, "ones": ones, "zeros": zeros, "random_sample": random_sample}[name]

    def _exec(self, step, i, res: RunResult) -> bool:
        op = step["op"]
        res.bump("steps")
        res.bump("op:" + op)
        V = lambda oracle, detail: Violation("C20", oracle, op, i, detail)  # noqa: E731
        tol = set(step.get("tolerate", []))
        self._last = None
        with warnings.catch_warnings():
            warnings.simplefilter("ignore")
            try:
                v = getattr(self, "_do_" + op)(step, V, res, tol)
            except _Skip:
                res.bump("skipped")
                res.events.append([i, op, "skip"])
                return True
            except Exception as e:  # noqa: BLE001
                v = V("generator_returns_on_admissible_request", f"{op}({ {k: step[k] for k in step if k not in ('op', 'tolerate')} }) raised {type(e).__name__}: {e}")
        if v is not None:
            res.violation = v
            res.events.append([i, op, "violation", v.oracle])
            return False
        if step.get("scribble") and self._last is not None:
            self._scribble(self._last)
            res.bump("results_edited_in_place")
        res.bump("calls_checked")
        res.states.add(hash((op, len(step.get("shape") or []), step.get("reducer"), step.get("fn"), step.get("density") is not None)) & 0xFFFFFFFF)
        return True

    def _scribble(self, obj):
        ttb = self.ttb
        with np.errstate(all="ignore"):
            try:
                if isinstance(obj, ttb.tensor):
                    obj.data[...] = -2.0 * obj.data - 1.0
                elif isinstance(obj, ttb.sptensor):
                    if obj.vals.size:
                        obj.vals[...] = -2.0 * obj.vals - 1.0
                        obj.subs[...] = 0
                elif isinstance(obj, ttb.ktensor):
                    obj.weights[...] = -2.0 * obj.weights - 1.0
                    for f in obj.factor_matrices:
                        f[...] = -2.0 * f - 1.0
            except (ValueError, TypeError):
                pass

    # ---- dense generators
    def _do_tenones(self, step, V, res, tol):
        T = self.ttb.tenones(tuple(step["shape"]), order=step["order"])
        self._last = T
        if tuple(T.shape) != tuple(step["shape"]) or T.data.shape != tuple(step["shape"]):
            return V("exact_shape", f"shape {T.shape}")
        if not np.all(T.data == 1):
            return V("entries_as_specified", "tenones has entries other than 1")
        res.events.append([step["op"], list(T.shape)])
        return None

    def _do_tenzeros(self, step, V, res, tol):
        T = self.ttb.tenzeros(tuple(step["shape"]), order=step["order"])
        self._last = T
        if tuple(T.shape) != tuple(step["shape"]) or T.data.shape != tuple(step["shape"]):
            return V("exact_shape", f"shape {T.shape}")
        if np.any(T.data != 0):
            return V("entries_as_specified", "tenzeros has non-zero entries")
        res.events.append([step["op"], list(T.shape)])
        return None

    def _do_tenrand(self, step, V, res, tol):
        ttb = self.ttb
        np.random.seed(step["np_seed"])
        A = ttb.tenrand(tuple(step["shape"]), order=step["order"])
        after = rng_state_digest()
        np.random.seed(step["np_seed"])
        B = ttb.tenrand(tuple(step["shape"]), order=step["order"])
        if tuple(A.shape) != tuple(step["shape"]) or A.data.shape != tuple(step["shape"]):
            return V("exact_shape", f"shape {A.shape}")
        if not (np.all(A.data >= 0) and np.all(A.data < 1)):
            return V("entries_as_specified", "tenrand entry outside [0, 1)")
        if not np.array_equal(A.data, B.data) or after != rng_state_digest():
            return V("reproducible_under_global_seed", "tenrand differs between two calls under the same seed")
        np.random.seed((step["np_seed"] + 1) & 0xFFFFFFFF)
        C = ttb.tenrand(tuple(step["shape"]), order=step["order"])
        if A.data.size >= 3 and np.array_equal(A.data, C.data):
            return V("reproducible_under_global_seed", "tenrand does not depend on the global seed")
        res.events.append([step["op"], arr_digest(A.data)])
        return None

    def _diag_expect(self, step):
        els = step["elements"]
        n = len(els)
        shape = tuple([n] * n) if step["shape"] is None else tuple(max(n, d) for d in step["shape"])
        want = np.zeros(shape)
        for k, e in enumerate(els):
            want[(k,) * len(shape)] = e
        return shape, want

    def _do_tendiag(self, step, V, res, tol):
        shape, want = self._diag_expect(step)
        T = self.ttb.tendiag(np.array(step["elements"]), None if step["shape"] is None else tuple(step["shape"]), order=step.get("order", "F"))
        self._last = T
        if tuple(T.shape) != shape or T.data.shape != shape:
            return V("exact_shape", f"tendiag shape {T.shape}, expected {shape}")
        if not np.array_equal(T.data, want):
            return V("entries_as_specified", f"tendiag entries differ: got nonzeros at {np.argwhere(T.data != 0).tolist()}")
        res.events.append([step["op"], list(shape)])
        return None

    def _do_sptendiag(self, step, V, res, tol):
        shape, want = self._diag_expect(step)
        S = self.ttb.sptendiag(np.array(step["elements"]), None if step["shape"] is None else tuple(step["shape"]))
        self._last = S
        p = wellformed(S, shape)
        if p:
            return V("wellformed_sparse_result", "sptendiag: " + p)
        got = np.zeros(shape)
        if np.asarray(S.subs).size:
            got[tuple(np.asarray(S.subs).T)] = np.asarray(S.vals).reshape(-1)
            if (np.asarray(S.vals) == 0).any():
                return V("zero_results_dropped", "sptendiag stores an explicit zero")
        if not np.array_equal(got, want):
            return V("entries_as_specified", "sptendiag entries differ")
        res.events.append([step["op"], list(shape)])
        return None

    def _do_teneye(self, step, V, res, tol):
        nd, size = step["ndims"], step["size"]
        T = self.ttb.teneye(nd, size, order=step.get("order", "F"))
        self._last = T
        if tuple(T.shape) != (size,) * nd:
            return V("exact_shape", f"teneye shape {T.shape}")
        for x in step["xs"]:
            x = np.array(x[:size], dtype=float)
            if x.shape[0] != size:
                raise _Skip()
            x = x / np.linalg.norm(x)
            y = np.asarray(T.data)
            for _ in range(nd - 1):  # contract the last mode repeatedly: all but the first
                y = y @ x
            if not np.allclose(y, x, rtol=0, atol=1e-10):
                return V("identity_under_symmetric_multiplication", f"teneye({nd},{size}) x^{nd - 1} = {y.tolist()} for unit x = {x.tolist()}")
        res.events.append([step["op"], nd, size])
        return None

    def _do_tensor_from_function(self, step, V, res, tol):
        shape = tuple(step["shape"])
        n = int(np.prod(shape))
        name = step["fn"]
        base = np.arange(n, dtype=float) + 1.0

        def fn(s):
            if name == "arange_1d":
                return base.copy()
            if name == "arange_F":
                return base.reshape(s, order="F")
            if name == "arange_C":
                return np.ascontiguousarray(base.reshape(s, order="F"))
            if name == "ones_F":
                return np.ones(s, order="F")
            if name in ("arange_strided", "arange_window"):
                # the requested values as a view that is contiguous in neither order: every second element of a larger
                # table / a window of a larger C-ordered table
                target = base.reshape(s, order="F")
                big = np.full(tuple(2 * int(v) + 1 for v in s), -7.0)
                if name == "arange_strided":
                    view = big[tuple(slice(0, 2 * int(v), 2) for v in s)]
                else:
                    view = big[tuple(slice(1, int(v) + 1) for v in s)]
                view[...] = target
                return view
            return np.full(n, 2.5)

        T = self.ttb.tensor.from_function(fn, shape)
        self._last = T
        want = {"arange_1d": base.reshape(shape, order="F"), "arange_F": base.reshape(shape, order="F"), "arange_C": base.reshape(shape, order="F"), "arange_strided": base.reshape(shape, order="F"), "arange_window": base.reshape(shape, order="F"), "ones_F": np.ones(shape), "const_1d": np.full(shape, 2.5)}[name]
        if tuple(T.shape) != shape or T.data.shape != shape:
            return V("exact_shape", f"from_function shape {T.shape}")
        if not np.array_equal(T.data, want):
            return V("entries_as_specified", f"tensor.from_function({name}) entries differ")
        res.events.append([step["op"], name])
        return None

    # ---- random sparse generators
    def _requested(self, step, size):
        if step["nonzeros"] is not None:
            return [int(step["nonzeros"])]
        x = size * step["density"]
        return sorted({int(math.floor(x)), int(math.ceil(x))})

    def _call_sparse(self, step, calls):
        ttb = self.ttb
        shape = tuple(step["shape"])
        if step["op"] == "sptenrand":
            if step["nonzeros"] is not None:
                return ttb.sptenrand(shape, nonzeros=step["nonzeros"])
            return ttb.sptenrand(shape, density=step["density"])
        fn = self._fn(step["fn"], calls)
        nz = step["nonzeros"] if step["nonzeros"] is not None else step["density"]
        return ttb.sptensor.from_function(fn, shape, nz)

    def _do_sptenrand(self, step, V, res, tol):
        return self._sparse_random(step, V, res, tol)

    def _do_sp_from_function(self, step, V, res, tol):
        return self._sparse_random(step, V, res, tol)

    def _sparse_random(self, step, V, res, tol):
        shape = tuple(step["shape"])
        size = int(np.prod(shape))
        if step["nonzeros"] is not None and not (0 <= step["nonzeros"] < size):
            raise _Skip()
        if step["density"] is not None and not (0 < step["density"] < 1):
            raise _Skip()
        wants = self._requested(step, size)
        if step["density"] is not None and max(wants) >= size:
            raise _Skip()  # density that rounds to the whole tensor: rejected by the documented range check
        if step["density"] is not None and min(wants) < 1:
            wants = [1]  # a positive density asks for at least one nonzero
        calls1: List[Any] = []
        np.random.seed(step["np_seed"])
        A = self._call_sparse(step, calls1)
        self._last = A
        after = rng_state_digest()
        calls2: List[Any] = []
        np.random.seed(step["np_seed"])
        B = self._call_sparse(step, calls2)
        p = wellformed(A, shape)
        if p:
            return V("wellformed_sparse_result", p)
        nnz = 0 if np.asarray(A.subs).size == 0 else np.asarray(A.subs).shape[0]
        if nnz not in wants:
            n = max(wants)
            collisions_plausible = n * (n - 1) / (2.0 * size) > 0.05
            if "sparse_random_count_shortfall" in tol and collisions_plausible and 0 < nnz < n:
                res.bump("probe:known_count_shortfall")
            else:
                return V("requested_number_of_nonzeros", f"{nnz} nonzeros for a request of {step['nonzeros'] if step['nonzeros'] is not None else step['density']} on shape {shape} (size {size})")
        else:
            if max(wants) * (max(wants) - 1) / (2.0 * size) > 0.5:
                res.bump("probe:near_saturation_request_met")
        vals = np.asarray(A.vals).reshape(-1)
        if step["op"] == "sptenrand" or step.get("fn") == "random_sample":
            if nnz and not (np.all(vals >= 0) and np.all(vals < 1)):
                return V("values_from_supplied_function", "random values outside [0, 1)")
        else:
            if calls1 != [(nnz, 1)]:
                return V("values_from_supplied_function", f"value function was called with {calls1}, result has {nnz} nonzeros")
            want = (np.arange(nnz, dtype=float) + 0.5) if step["fn"] == "arange_plus" else np.ones(nnz)
            if not np.array_equal(vals, want):
                return V("values_from_supplied_function", f"values {vals.tolist()} are not what the supplied function returned {want.tolist()}")
        if (np.asarray(A.subs).shape != np.asarray(B.subs).shape) or not np.array_equal(A.subs, B.subs) or not np.array_equal(A.vals, B.vals) or after != rng_state_digest():
            return V("reproducible_under_global_seed", "two calls under the same global seed differ")
        res.events.append([step["op"], nnz, arr_digest(np.asarray(A.subs))])
        return None

    # ---- aggregating constructor
    def _do_from_aggregator(self, step, V, res, tol):
        ttb = self.ttb
        rows, vals = step["subs"], step["vals"]
        if step.get("gen_rows"):
            rs = np.random.RandomState(step["gen_rows"]["seed"])
            n = step["gen_rows"]["n"]
            rows = np.stack([rs.randint(0, s, size=n) for s in step["shape"]], axis=1).tolist()
            vals = rs.randint(-3, 4, size=n).astype(float).tolist()
            res.bump("probe:very_long_aggregator_input")
        if not rows or len(rows) != len(vals):
            raise _Skip()
        nd = len(rows[0])
        inferred = tuple(max(r[d] for r in rows) + 1 for d in range(nd))
        shape = inferred if step["shape"] is None else tuple(step["shape"])
        if len(shape) != nd or any(r[d] >= shape[d] for r in rows for d in range(nd)):
            raise _Skip()
        red = step["reducer"]
        if len(rows) == 1 and "aggregator_single_subscript" in tol:
            raise _Skip()
        groups: Dict[Any, List[float]] = {}
        for r, v in zip(rows, vals):
            groups.setdefault(tuple(r), []).append(v)
        f = {"sum": sum, "default": sum, "np.sum": sum, "min": min, "max": max, "np.max": max, "mean": lambda xs: sum(xs) / len(xs), "prod": lambda xs: float(np.prod(xs)),
             "first": lambda xs: xs[0], "callable_first": lambda xs: xs[0], "last": lambda xs: xs[-1], "callable_last": lambda xs: xs[-1]}[red]  # fmt: skip
        want = {p: float(f(vs)) for p, vs in groups.items()}
        want = {p: v for p, v in want.items() if v != 0}
        kw: Dict[str, Any] = {}
        if red != "default":
            kw["function_handle"] = {"np.max": np.max, "np.sum": np.sum, "callable_first": lambda v: v[0], "callable_last": lambda v: v[-1]}.get(red, red)
        subs = np.array(rows, dtype=step.get("subs_dtype", "int64")).reshape(len(rows), nd)
        v = np.array(vals, dtype=float).reshape(-1, 1)
        if step.get("vals_dtype"):
            v = v.astype(step["vals_dtype"])
            res.bump("probe:aggregator_values_in_a_narrow_integer_type")
        subs0, v0 = subs.copy(), v.copy()
        if max(shape) > 10**4:
            res.bump("probe:huge_declared_shape")
        S = ttb.sptensor.from_aggregator(subs, v, None if step["shape"] is None else shape, **kw)
        self._last = S
        p = wellformed(S, shape)
        if p:
            return V("wellformed_sparse_result", "from_aggregator: " + p)
        got = {}
        if np.asarray(S.subs).size:
            for r, x in zip(np.asarray(S.subs).tolist(), np.asarray(S.vals).reshape(-1).tolist()):
                got[tuple(r)] = x
        if any(x == 0 for x in got.values()):
            return V("zero_results_dropped", f"explicit zero stored: {got}")
        if set(got) != set(want) or any(abs(got[k] - want[k]) > 1e-12 * (1 + abs(want[k])) for k in want):
            return V("duplicates_combined_with_reducer", f"reducer {red}: got {got}, expected {want} from subs {rows} vals {vals}")
        if not np.array_equal(subs, subs0) or not np.array_equal(v, v0):
            res.bump("probe:aggregator_modified_inputs")
        if len(groups) < len(rows):
            res.bump("probe:duplicates_aggregated")
        if len(want) < len(groups):
            res.bump("probe:zero_result_dropped")
        res.events.append([step["op"], red, len(want)])
        return None

    # ---- Kruskal from a function
    def _do_k_from_function(self, step, V, res, tol):
        ttb = self.ttb
        shape = tuple(step["shape"])
        r = step["rank"]
        calls: List[Any] = []
        np.random.seed(step["np_seed"])
        K = ttb.ktensor.from_function(self._fn(step["fn"], calls), shape, r)
        self._last = K
        if tuple(K.shape) != shape or K.ncomponents != r:
            return V("exact_shape", f"ktensor shape {K.shape} rank {K.ncomponents}")
        if not np.array_equal(K.weights, np.ones(r)):
            return V("entries_as_specified", f"weights {K.weights}")
        if calls != [(s, r) for s in shape]:
            return V("values_from_supplied_function", f"function called with {calls}")
        for n, s in enumerate(shape):
            f = np.asarray(K.factor_matrices[n])
            if f.shape != (s, r):
                return V("exact_shape", f"factor {n} has shape {f.shape}")
            if step["fn"] == "arange_plus":
                want = (np.arange(s * r, dtype=float) + 0.5).reshape((s, r))
            elif step["fn"] == "ones":
                want = np.ones((s, r))
            elif step["fn"] == "zeros":
                want = np.zeros((s, r))
            else:
                want = None
            if want is not None and not np.array_equal(f, want):
                return V("values_from_supplied_function", f"factor {n} is not what the function returned")
        if step["fn"] == "random_sample":
            calls2: List[Any] = []
            np.random.seed(step["np_seed"])
            K2 = ttb.ktensor.from_function(self._fn(step["fn"], calls2), shape, r)
            if any(not np.array_equal(a, b) for a, b in zip(K.factor_matrices, K2.factor_matrices)):
                return V("reproducible_under_global_seed", "ktensor.from_function differs under the same seed")
        res.events.append([step["op"], step["fn"]])
        return None


class _Skip(Exception):
    pass
