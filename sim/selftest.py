"""Determinism self-test: the same run seeds must give the same run digests in the same
process, in fresh interpreters under other PYTHONHASHSEED values and under load from 16
concurrent processes.  ``./check <prop> --selftest`` (N from VERIF_SELFTEST_RUNS, default 120).
"""

from __future__ import annotations

import os
import subprocess
import sys
from concurrent.futures import ThreadPoolExecutor

from . import driver


def _digests_subprocess(prop: str, r0: int, r1: int, hashseed: str):
    env = dict(os.environ)
    env["PYTHONHASHSEED"] = hashseed
    p = subprocess.run([sys.executable, "-m", "sim.cli", prop, "--digests", str(r0), str(r1)], cwd=driver.VERIF, env=env, capture_output=True, text=True, timeout=3600)
    out = {}
    for line in p.stdout.splitlines():
        parts = line.split()
        if len(parts) == 2 and parts[0].isdigit():
            out[int(parts[0])] = parts[1]
    if len(out) != r1 - r0:
        raise RuntimeError(f"digest subprocess failed: {p.stderr[-800:]}")
    return out


def selftest(prop: str) -> int:
    n = int(os.environ.get("VERIF_SELFTEST_RUNS", "120"))
    root = int(os.environ.get("VERIF_SEED", "0") or 0)
    driver.import_sut()
    eng = driver._get_engine(prop)
    tier = os.environ.get("VERIF_TIER", "quick")
    a = {r: driver.run_one(eng, prop, root, r, tier).digest() for r in range(n)}
    b = {r: driver.run_one(eng, prop, root, r, tier).digest() for r in range(n)}
    mism = [r for r in range(n) if a[r] != b[r]]
    print(f"same process twice: {n - len(mism)}/{n} identical")
    bad = len(mism)
    for hs in ("0", "1", "98765"):
        c = _digests_subprocess(prop, 0, n, hs)
        m = [r for r in range(n) if a[r] != c[r]]
        print(f"fresh interpreter PYTHONHASHSEED={hs}: {n - len(m)}/{n} identical" + (f" first mismatch run {m[0]}" if m else ""))
        bad += len(m)
    # 16 concurrent fresh interpreters, each a slice (load + other process ids)
    k = 16
    step = max(1, n // k)
    slices = [(i, min(n, i + step)) for i in range(0, n, step)]
    with ThreadPoolExecutor(max_workers=k) as ex:
        outs = list(ex.map(lambda s: _digests_subprocess(prop, s[0], s[1], "7"), slices))
    merged = {}
    for o in outs:
        merged.update(o)
    m = [r for r in range(n) if a[r] != merged.get(r)]
    print(f"{len(slices)} concurrent interpreters: {n - len(m)}/{n} identical")
    bad += len(m)
    print(f"SELFTEST property={prop} runs={n} mismatches={bad}")
    return 0 if bad == 0 else 2
