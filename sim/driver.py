"""Batch driver: seeded search over runs on a process pool, minimisation, replay files,
known findings, evidence.  See DESIGN.md section 2.

Exit codes of a check: 0 = property held on everything explored; 1 = violation
(``VIOLATION property=<id> replay=<path>`` printed); 2 = harness error (never 0).
"""

from __future__ import annotations

import faulthandler
import json
import multiprocessing
import os
import signal
import subprocess
import sys
import time as _realtime  # harness wall budget only; never visible to a simulated run
import traceback
import multiprocessing.connection as mpc
from typing import Any, Dict, List, Optional

from . import kernel
from .kernel import H, RunResult, Violation, ddmin

VERIF = os.path.dirname(os.path.dirname(os.path.abspath(__file__)))
REPO = os.environ.get("VERIF_REPO", "/repo")
RUN_CAP_S = float(os.environ.get("VERIF_RUN_CAP", "30"))  # wall cap for one simulated run


class RunTimeout(BaseException):
    pass


def _alarm(signum, frame):
    raise RunTimeout()


def import_sut():
    """Import pyttb from the working tree under test (pure Python: import == rebuild)."""
    if REPO not in sys.path:
        sys.path.insert(0, REPO)
    import pyttb  # noqa: F401

    got = os.path.realpath(os.path.dirname(pyttb.__file__))
    want = os.path.realpath(os.path.join(REPO, "pyttb"))
    if got != want:
        raise RuntimeError(f"pyttb imported from {got}, expected {want}")
    return pyttb


# ------------------------------------------------------------------ known findings
def load_known() -> List[Dict[str, Any]]:
    p = os.path.join(VERIF, "known_findings.json")
    if not os.path.exists(p):
        return []
    with open(p) as f:
        return json.load(f)["findings"]


def known_triggers(prop: str) -> List[str]:
    return sorted(
        {
            t
            for e in load_known()
            if e["property"] == prop and e["status"] == "known"
            for t in e.get("steer", [])
        }
    )


# ----------------------------------------------------------------------- one run
def run_one(engine, prop: str, root: int, r: int, tier: str) -> RunResult:
    run_seed = H(root, prop, r)
    return engine.run(run_seed, tier)


def _guarded(fn):
    """Run fn() under the per-run wall cap; returns (result | None, status)."""
    signal.signal(signal.SIGALRM, _alarm)
    signal.setitimer(signal.ITIMER_REAL, RUN_CAP_S)
    faulthandler.dump_traceback_later(RUN_CAP_S * 4, exit=True)
    try:
        return fn(), "ok"
    except RunTimeout:
        return None, "timeout"
    finally:
        signal.setitimer(signal.ITIMER_REAL, 0)
        faulthandler.cancel_dump_traceback_later()


_ENGINE = None
_ENGINE_KEY = None


def _get_engine(prop: str):
    global _ENGINE, _ENGINE_KEY
    if _ENGINE_KEY != prop:
        from .registry import make_engine

        _ENGINE = make_engine(prop, known_triggers(prop))
        _ENGINE_KEY = prop
    return _ENGINE


def _record_of(prop, root, r, res: RunResult) -> Dict[str, Any]:
    return {
        "format": kernel.FORMAT,
        "property": prop,
        "root_seed": root,
        "run": r,
        "run_seed": H(root, prop, r),
        "init": res.init,
        "steps": res.steps,
    }


def worker_chunk(args):
    prop, root, r0, r1, tier = args
    engine = _get_engine(prop)
    out = {
        "r0": r0,
        "r1": r1,
        "runs": 0,
        "stats": {},
        "digests": [],
        "nontrivial": [],
        "states": set(),
        "violations": [],
        "timeouts": [],
        "errors": [],
        "samples": [],
        "sim_seconds": 0.0,
    }
    for r in range(r0, r1):
        try:
            res, status = _guarded(lambda: run_one(engine, prop, root, r, tier))
        except Exception:  # harness bug: report, never swallow
            out["errors"].append({"run": r, "trace": traceback.format_exc()[-3000:]})
            continue
        if status == "timeout":
            out["timeouts"].append(r)
            continue
        out["runs"] += 1
        for k, v in res.stats.items():
            out["stats"][k] = out["stats"].get(k, 0) + v
        d = res.digest()[:20]
        out["digests"].append(d)
        if getattr(res, "nontrivial", False):
            out["nontrivial"].append(d)
            if len(out["samples"]) < 1:
                out["samples"].append(_record_of(prop, root, r, res))
        if len(out["states"]) < 200000:
            out["states"].update(res.states)
        out["sim_seconds"] += res.sim_seconds
        if res.violation is not None:
            rec = _record_of(prop, root, r, res)
            rec["violation"] = res.violation.to_json()
            out["violations"].append(rec)
    return out


# ------------------------------------------------------------------ minimisation
def replay_record(engine, rec: Dict[str, Any]) -> RunResult:
    return engine.replay(rec)


def minimise(engine, rec: Dict[str, Any]) -> Dict[str, Any]:
    klass = (rec["violation"]["property"], rec["violation"]["oracle"], rec["violation"]["op"])

    def fails_steps(steps):
        cand = dict(rec)
        cand["steps"] = steps
        try:
            res, status = _guarded(lambda: replay_record(engine, cand))
        except Exception:
            return False
        if status != "ok":
            return False
        return res.violation is not None and res.violation.klass == klass

    steps = list(rec["steps"])
    # cut everything after the violating step first
    vstep = rec["violation"].get("step")
    if isinstance(vstep, int) and 0 <= vstep < len(steps) and fails_steps(steps[: vstep + 1]):
        steps = steps[: vstep + 1]
    if len(steps) > 1:
        if fails_steps(steps):
            steps = ddmin(steps, fails_steps)
    out = dict(rec)
    out["steps"] = steps
    # engine-specific argument simplification
    simp = getattr(engine, "simplify", None)
    if simp is not None:
        budget = 300
        progress = True
        while progress and budget > 0:
            progress = False
            for cand in simp(out):
                budget -= 1
                if budget <= 0:
                    break
                try:
                    res, status = _guarded(lambda: replay_record(engine, cand))
                except Exception:
                    continue
                if status == "ok" and res.violation is not None and res.violation.klass == klass:
                    out = cand
                    progress = True
                    break
    res, status = _guarded(lambda: replay_record(engine, out))
    if status == "ok" and res.violation is not None:
        out["violation"] = res.violation.to_json()
    out["minimised_from_steps"] = len(rec["steps"])
    return out


def _minimise_task(prop: str, rec: Dict[str, Any]) -> Dict[str, Any]:
    return minimise(_get_engine(prop), rec)


def _replay_task(prop: str, rec: Dict[str, Any]):
    """(status, violation-json | None) of replaying one record (single or multi-run) in this process."""
    engine = _get_engine(prop)
    recs = rec["multi"] if "multi" in rec else [rec]
    for k, one in enumerate(recs):
        res, status = _guarded(lambda one=one: replay_record(engine, one))
        if status != "ok":
            return status, None, k
        if res.violation is not None:
            return "ok", res.violation.to_json(), k
    return "ok", None, len(recs) - 1


def _collect_chunk_records(prop: str, root: int, r0: int, r: int, tier: str):
    """Re-run runs r0..r in this (fresh) process, in order, and return their full records."""
    engine = _get_engine(prop)
    out = []
    for k in range(r0, r + 1):
        res, status = _guarded(lambda k=k: run_one(engine, prop, root, k, tier))
        if status != "ok":
            return out
        rec = _record_of(prop, root, k, res)
        if res.violation is not None:
            rec["violation"] = res.violation.to_json()
        out.append(rec)
    return out


def _klass_of(vj) -> str:
    return "/".join((vj["property"], vj["oracle"], vj["op"]))


def cross_run_replay(prop: str, root: int, rec: Dict[str, Any], chunk: int, tier: str):
    """The violation did not reproduce from its own run alone: it may depend on state the SUT kept from earlier
    runs of the same chunk (module-level caches, mutated defaults). Build a replay of the chunk prefix."""
    r = rec["run"]
    r0 = (r // chunk) * chunk
    recs = in_child(_collect_chunk_records, prop, root, r0, r, tier)
    if not recs or "violation" not in recs[-1]:
        return None
    prop_of = recs[-1]["violation"]["property"]
    # drop earlier runs that are not needed (each trial in a pristine child)
    keep = list(recs)
    i = 0
    trials = 0
    while i < len(keep) - 1 and trials < 60:
        cand = keep[:i] + keep[i + 1 :]
        trials += 1
        status, vj, _ = in_child(_replay_task, prop, {"multi": cand})
        if status == "ok" and vj is not None and vj["property"] == prop_of:
            keep = cand
        else:
            i += 1
    status, vj, _ = in_child(_replay_task, prop, {"multi": keep})
    if status != "ok" or vj is None:
        return None
    out = {"format": kernel.FORMAT, "property": prop, "root_seed": root, "run": r, "cross_run_state": True, "multi": keep, "violation": vj}
    return out


def write_replay(prop: str, rec: Dict[str, Any]) -> str:
    d = os.path.join(VERIF, "replays", prop)
    os.makedirs(d, exist_ok=True)
    body = {k: rec[k] for k in rec if k != "digest"}
    if "multi" in rec:
        dg = kernel.digest_of([{"init": m["init"], "steps": m["steps"]} for m in rec["multi"]])[:16]
    else:
        dg = kernel.digest_of({"init": rec["init"], "steps": rec["steps"]})[:16]
    body["digest"] = dg
    path = os.path.join(d, f"{dg}.json")
    with open(path, "w") as f:
        json.dump(body, f, indent=1, sort_keys=True)
    return path


def fresh_replay(prop: str, path: str, hashseed: str = "0") -> Optional[str]:
    """Replay in a fresh interpreter; returns the violation class string or None."""
    env = dict(os.environ)
    env["PYTHONHASHSEED"] = hashseed
    env["VERIF_NO_EVIDENCE"] = "1"
    p = subprocess.run(
        [sys.executable, "-m", "sim.cli", prop, "--replay", path],
        cwd=VERIF,
        env=env,
        capture_output=True,
        text=True,
        timeout=RUN_CAP_S * 6 + 60,
    )
    for line in p.stdout.splitlines():
        if line.startswith("REPLAY-VIOLATION "):
            return line.split("class=", 1)[1].strip()
    return None


# --------------------------------------------------------------------------- batch
def _limit_memory():
    """Cap the address space of a child (default 4 GB): code under test that runs away with memory -- a wrong
    shape turned into an allocation of many gigabytes -- then fails with MemoryError inside its own run, where the
    engines see it as the exception it is, instead of waking the kernel's out-of-memory killer (which takes the worker,
    or an innocent neighbour, down with SIGKILL and turns a violation into a harness error)."""
    try:
        import resource

        cap = int(float(os.environ.get("VERIF_MEM_GB", "4")) * (1 << 30))
        soft, hard = resource.getrlimit(resource.RLIMIT_AS)
        if hard != resource.RLIM_INFINITY:
            cap = min(cap, hard)
        resource.setrlimit(resource.RLIMIT_AS, (cap, hard))
    except Exception:  # noqa: BLE001 -- a platform without the limit: carry on as before
        pass


def _child_main(conn, fn, args):
    _limit_memory()
    try:
        conn.send(fn(*args))
    except BaseException:  # noqa: BLE001 -- report, the parent decides
        try:
            conn.send({"__child_error__": traceback.format_exc()[-3000:]})
        except Exception:  # noqa: BLE001
            pass
    finally:
        conn.close()
        os._exit(0)


def _spawn(ctx, fn, *args):
    parent, child = ctx.Pipe(duplex=False)
    proc = ctx.Process(target=_child_main, args=(child, fn, args))
    proc.start()
    child.close()
    return parent, proc


def in_child(fn, *args, timeout=None):
    """Run fn(*args) in a freshly forked child (pristine module state); returns its result."""
    ctx = multiprocessing.get_context("fork")
    conn, proc = _spawn(ctx, fn, *args)
    try:
        if not conn.poll(timeout if timeout is not None else RUN_CAP_S * 40):
            proc.kill()
            raise RuntimeError("child timed out")
        out = conn.recv()
    except EOFError:
        raise RuntimeError(f"child died (exit code {proc.exitcode})")
    finally:
        conn.close()
        proc.join()
    if isinstance(out, dict) and "__child_error__" in out:
        raise RuntimeError("child failed: " + out["__child_error__"])
    return out


def run_batch(prop: str, tier: str, root: int, n_runs: int, wall_cap: float, workers: int, chunk: int):
    t0 = _realtime.monotonic()
    import_sut()
    _get_engine(prop)  # import engine (and pyttb) before forking
    ctx = multiprocessing.get_context("fork")
    agg = {
        "runs": 0,
        "stats": {},
        "digests": set(),
        "nontrivial": set(),
        "states": set(),
        "violations": [],
        "timeouts": [],
        "errors": [],
        "samples": [],
        "sim_seconds": 0.0,
        "truncated": False,
    }
    tasks = [(prop, root, r0, min(n_runs, r0 + chunk), tier) for r0 in range(0, n_runs, chunk)]
    results = []
    # One freshly forked child per chunk: state that the SUT keeps in module globals cannot leak from one chunk
    # into another, so what a run sees depends only on (seed, position inside its chunk) -- never on which worker
    # happened to pick the chunk up.
    it = iter(tasks)
    live = {}  # connection -> (process, task)
    exhausted = False
    while True:
        while not exhausted and len(live) < max(1, workers):
            if _realtime.monotonic() - t0 > wall_cap:
                agg["truncated"] = True
                exhausted = True
                break
            try:
                task = next(it)
            except StopIteration:
                exhausted = True
                break
            conn, proc = _spawn(ctx, worker_chunk, task)
            live[conn] = (proc, task)
        if not live:
            break
        ready = mpc.wait(list(live), timeout=RUN_CAP_S * 8 * chunk)
        if not ready:
            for proc, _ in live.values():
                proc.kill()
            raise RuntimeError("worker pool stalled")
        for conn in ready:
            proc, task = live.pop(conn)
            try:
                out = conn.recv()
            except EOFError:
                out = {"r0": task[2], "r1": task[3], "runs": 0, "stats": {}, "digests": [], "nontrivial": [], "states": set(), "violations": [], "timeouts": [], "errors": [{"run": task[2], "trace": f"worker for runs {task[2]}..{task[3]} died (exit code {proc.exitcode})"}], "samples": [], "sim_seconds": 0.0}
            conn.close()
            proc.join()
            results.append(out)
    for o in results:
        if "__child_error__" in o:
            agg["errors"].append({"run": -1, "trace": o["__child_error__"]})
    results = [o for o in results if "__child_error__" not in o]
    results.sort(key=lambda o: o["r0"])
    for o in results:
        agg["runs"] += o["runs"]
        for k, v in o["stats"].items():
            agg["stats"][k] = agg["stats"].get(k, 0) + v
        agg["digests"].update(o["digests"])
        agg["nontrivial"].update(o["nontrivial"])
        if len(agg["states"]) < 3_000_000:
            agg["states"].update(o["states"])
        agg["violations"].extend(o["violations"])
        agg["timeouts"].extend(o["timeouts"])
        agg["errors"].extend(o["errors"])
        if len(agg["samples"]) < 3:
            agg["samples"].extend(o["samples"][: 3 - len(agg["samples"])])
        agg["sim_seconds"] += o["sim_seconds"]
    agg["wall_s"] = _realtime.monotonic() - t0
    return agg


def write_evidence(prop: str, body: Dict[str, Any]):
    if os.environ.get("VERIF_NO_EVIDENCE"):
        return
    d = os.path.join(VERIF, "evidence")
    os.makedirs(d, exist_ok=True)
    tmp = os.path.join(d, f".{prop}.json.tmp")
    with open(tmp, "w") as f:
        json.dump(body, f, indent=1, sort_keys=True, default=str)
    os.replace(tmp, os.path.join(d, f"{prop}.json"))


def trim_sample(rec: Dict[str, Any], max_steps: int = 12) -> Dict[str, Any]:
    out = {k: rec[k] for k in ("property", "run", "run_seed", "init")}
    out["steps"] = rec["steps"][:max_steps]
    out["steps_total"] = len(rec["steps"])
    return out


def check(prop: str, tier: str) -> int:
    from .registry import CHECKS

    cfg = CHECKS[prop]
    root = int(os.environ.get("VERIF_SEED", "0") or 0)
    workers = int(os.environ.get("VERIF_WORKERS", str(min(16, os.cpu_count() or 1))))
    n_runs = int(os.environ.get("VERIF_RUNS", cfg[tier]["runs"]))
    wall_cap = float(os.environ.get("VERIF_WALL", cfg[tier]["wall"]))
    chunk = cfg.get("chunk", 25)
    print(f"SEED root={root} property={prop} tier={tier} runs={n_runs} workers={workers} repo={REPO}")
    import_sut()
    engine = _get_engine(prop)
    exit_code = 0
    known_seen = []
    lines = []

    # 1. committed replays of known / fixed findings
    for e in load_known():
        if e["property"] != prop or not e.get("replay"):
            continue
        path = os.path.join(VERIF, e["replay"])
        with open(path) as f:
            rec = json.load(f)
        status, vj, _ = in_child(_replay_task, prop, rec)
        viol = Violation(vj["property"], vj["oracle"], vj["op"], vj["step"], vj["detail"]) if vj else None
        if e["status"] == "known":
            if (viol is not None and [viol.oracle, viol.op] == e["signature"]) or (
                status == "timeout" and e["signature"][0] == "terminates"
            ):
                print(f"KNOWN-FINDING: property={prop} {e['id']}: {e['what']}")
                known_seen.append(e["id"])
            elif viol is not None:
                print(f"VIOLATION property={prop} replay={path}")
                print(f"  known finding {e['id']} now fails differently: {viol!r}")
                exit_code = 1
            else:
                print(f"NOTE: known finding {e['id']} no longer reproduces on this tree")
        else:  # fixed: an ordinary regression case that must pass
            if viol is not None or status == "timeout":
                print(f"VIOLATION property={prop} replay={path}")
                print(f"  regression of fixed finding {e['id']}: {viol!r}")
                exit_code = 1

    # 2. seeded search
    agg = run_batch(prop, tier, root, n_runs, wall_cap, workers, chunk)
    if agg["errors"]:
        print("HARNESS-ERROR: exception inside the harness")
        print(agg["errors"][0]["trace"])
        return 2

    reported = []
    nondeterministic = 0
    viols = sorted(agg["violations"], key=lambda v: v["run"])
    seen_klass = set()
    for rec in viols:
        k = (rec["violation"]["oracle"], rec["violation"]["op"])
        if k in seen_klass or len(seen_klass) >= 4:
            continue
        seen_klass.add(k)
        mini = in_child(_minimise_task, prop, rec)
        path = write_replay(prop, mini)
        want = "/".join((mini["violation"]["property"], mini["violation"]["oracle"], mini["violation"]["op"]))
        got1 = fresh_replay(prop, path, "0")
        got2 = fresh_replay(prop, path, "1")
        if got1 != want or got2 != want:
            multi = cross_run_replay(prop, root, rec, chunk, tier)
            if multi is not None:
                os.remove(path)
                path = write_replay(prop, multi)
                want = _klass_of(multi["violation"])
                got1 = fresh_replay(prop, path, "0")
                got2 = fresh_replay(prop, path, "1")
                mini = dict(multi, steps=[st for m in multi["multi"] for st in m["steps"]])
        same_property = bool(got1) and bool(got2) and got1.split("/")[0] == want.split("/")[0] and got2.split("/")[0] == want.split("/")[0]
        if (got1 != want or got2 != want) and same_property:
            # every replay violates the property, but not always through the same oracle / operation: the code under
            # test is itself not a function of the seeded stream (e.g. it draws from an OS-seeded generator)
            print(f"NOTE: replays of {path} violate {prop} as {got1} / {got2} (first seen as {want}): the code under test is not deterministic under the seeded stream")
            want = got1 = got2
        if got1 == want and got2 == want:
            print(f"VIOLATION property={prop} replay={path}")
            print(f"  class={want} run={rec['run']} steps={len(mini['steps'])} (from {len(rec['steps'])})")
            print(f"  {mini['violation']['detail'][:600]}")
            reported.append({"replay": path, "class": want, "run": rec["run"]})
            exit_code = 1
        else:
            print(f"HARNESS-NONDETERMINISM: replay of {path} gave {got1!r}/{got2!r}, expected {want!r}")
            nondeterministic += 1
    if nondeterministic and not reported:
        return 2
    # timeouts: a run that does not return within the cap
    if agg["timeouts"]:
        print(f"HARNESS-ERROR: {len(agg['timeouts'])} run(s) exceeded the wall cap: runs {agg['timeouts'][:5]}")
        if exit_code == 0:
            return 2

    if agg["runs"] == 0:
        print("HARNESS-ERROR: no run completed")
        return 2

    hours = max(agg["wall_s"], 1e-9) / 3600.0
    stats = agg["stats"]
    cov = {
        "evaluations": agg["runs"],
        "distinct_nontrivial": len(agg["nontrivial"]),
        "rule": cfg["rule"],
        "samples": [trim_sample(s) for s in agg["samples"]],
        "distinct_run_digests": len(agg["digests"]),
        "distinct_states": len(agg["states"]),
        "state_measure": cfg.get("state_measure", ""),
        "seeds": {"root": root, "runs": [0, agg["runs"]], "derivation": "run_seed = sha256(root|property|r)[:8]"},
        "runs_per_hour": int(agg["runs"] / hours),
        "steps": stats.get("steps", 0),
        "simulated_seconds": agg["sim_seconds"],
        "faults_fired": {k[6:]: v for k, v in sorted(stats.items()) if k.startswith("fault:")},
        "probes": {k[6:]: v for k, v in sorted(stats.items()) if k.startswith("probe:")},
        "ops": {k[3:]: v for k, v in sorted(stats.items()) if k.startswith("op:")},
        "components": cfg.get("components", {}),
        "known_findings_seen": known_seen,
        "truncated_by_wall_cap": agg["truncated"],
        "violations_reported": reported,
        "workers": workers,
    }
    body = {
        "property_id": prop,
        "tier": tier,
        "seed": root,
        "level": cfg["level"],
        "coverage": cov,
        "assumptions": cfg.get("assumptions", []),
        "wall_s": round(agg["wall_s"], 2),
        "violations": len(reported),
    }
    write_evidence(prop, body)
    print(
        f"DONE property={prop} runs={agg['runs']} distinct_nontrivial={len(agg['nontrivial'])} "
        f"states={len(agg['states'])} steps={stats.get('steps', 0)} wall={agg['wall_s']:.1f}s "
        f"violations={len(reported)} exit={exit_code}"
    )
    return exit_code


def replay_cli(prop: str, path: str) -> int:
    import_sut()
    engine = _get_engine(prop)
    with open(path) as f:
        rec = json.load(f)
    status, vj, k = _replay_task(prop, rec)
    if status == "timeout":
        print(f"REPLAY-VIOLATION class={prop}/terminates/run")
        print(f"VIOLATION property={prop} replay={path}")
        return 1
    if vj is not None:
        print(f"REPLAY-VIOLATION class={vj['property']}/{vj['oracle']}/{vj['op']}")
        print(f"VIOLATION property={prop} replay={path}")
        where = f"run {k + 1} of {len(rec['multi'])} (state carried across runs), " if "multi" in rec else ""
        print(f"  {where}step={vj['step']} {vj['detail'][:1500]}")
        return 1
    n = sum(len(m["steps"]) for m in rec["multi"]) if "multi" in rec else len(rec["steps"])
    print(f"REPLAY-OK property={prop} steps={n}")
    return 0


def digest_cli(prop: str, tier: str, r0: int, r1: int) -> int:
    """Print one line per run: run index and digest (used by the determinism self-test)."""
    import_sut()
    engine = _get_engine(prop)
    root = int(os.environ.get("VERIF_SEED", "0") or 0)
    for r in range(r0, r1):
        res = run_one(engine, prop, root, r, tier)
        print(f"{r} {res.digest()}")
    return 0


def main(argv: List[str]) -> int:
    if len(argv) < 3:
        print("usage: check <property> quick|thorough | --replay <file> | --digests r0 r1")
        return 2
    prop, mode = argv[1], argv[2]
    try:
        if mode == "--replay":
            return replay_cli(prop, argv[3])
        if mode == "--digests":
            return digest_cli(prop, os.environ.get("VERIF_TIER", "quick"), int(argv[3]), int(argv[4]))
        if mode == "--selftest":
            from .selftest import selftest

            return selftest(prop)
        if mode in ("quick", "thorough"):
            return check(prop, mode)
        print(f"unknown mode {mode}")
        return 2
    except Exception:
        print("HARNESS-ERROR: " + traceback.format_exc())
        return 2
