"""Engine A -- ``tensor-history``: one dense ``ttb.tensor`` and one ``ttb.sptensor`` are
driven in lock-step through a seeded history of reads and writes and compared, after
every step, with a trivial executable reference model (shape + dict of cells).

Decides C04; with malformed-request injection it is also the ``__setitem__`` /
``__getitem__`` facet of C19 (DESIGN.md section 3, engine A).
"""

from __future__ import annotations

import itertools
import warnings
from typing import Any, Dict, List, Optional, Tuple

import numpy as np

from .kernel import H, RunResult, Streams, Violation, dec, enc, weighted

MAX_EXTENT = 6
MAX_ORDER = 5


# ------------------------------------------------------------------ reference model
class Model:
    """An F-ordered mutable N-way array: ``shape`` and a dict of non-zero cells."""

    def __init__(self, shape, cells=None):
        self.shape: List[int] = [int(s) for s in shape]
        self.cells: Dict[Tuple[int, ...], float] = dict(cells or {})

    def copy(self):
        return Model(self.shape, self.cells)

    @property
    def order(self):
        return len(self.shape)

    def size(self):
        n = 1
        for s in self.shape:
            n *= s
        return n

    def lin2sub(self, k: int) -> Tuple[int, ...]:
        n = self.size()
        if k < 0:
            k += n
        assert 0 <= k < n
        out = []
        for s in self.shape:  # first index varies fastest
            out.append(k % s)
            k //= s
        return tuple(out)

    def norm(self, pos) -> Tuple[int, ...]:
        return tuple(int(p) + self.shape[d] if p < 0 else int(p) for d, p in enumerate(pos))

    def get(self, pos) -> float:
        return self.cells.get(tuple(pos), 0.0)

    def set(self, pos, v: float):
        pos = tuple(int(p) for p in pos)
        if v == 0:
            self.cells.pop(pos, None)
        else:
            self.cells[pos] = float(v)

    def grow(self, newshape):
        newshape = [int(s) for s in newshape]
        extra = len(newshape) - len(self.shape)
        assert extra >= 0 and all(a >= b for a, b in zip(newshape, self.shape))
        if extra:
            self.cells = {p + (0,) * extra: v for p, v in self.cells.items()}
        self.shape = newshape

    def dense(self) -> np.ndarray:
        a = np.zeros(tuple(self.shape))
        for p, v in self.cells.items():
            a[p] = v
        return a

    # --- regions -----------------------------------------------------------------
    def region_target_shape(self, key) -> List[int]:
        """Shape after a write with region ``key`` (ints / slices / lists); may grow."""
        new = []
        for d, k in enumerate(key):
            cur = self.shape[d] if d < self.order else 0
            if isinstance(k, slice):
                need = cur if k.stop is None else k.stop
                if (k.stop is not None and k.stop < 0) or k.step is not None:
                    need = cur
            elif isinstance(k, list):
                need = max(k) + 1
            else:
                need = (k + 1) if k >= 0 else cur
            new.append(max(cur, need))
        return new

    def region_lists(self, key, shape=None):
        shape = self.shape if shape is None else shape
        lists, kept = [], []
        for d, k in enumerate(key):
            if isinstance(k, slice):
                lists.append(list(range(shape[d])[k]))
                kept.append(d)
            elif isinstance(k, list):
                lists.append([int(i) for i in k])
                kept.append(d)
            else:
                lists.append([int(k) + shape[d] if k < 0 else int(k)])
        return lists, kept


def densify(subs, vals, shape):
    """Independent densification of coordinate storage; returns (array | None, problem)."""
    shape = tuple(int(s) for s in shape)
    a = np.zeros(shape)
    subs = np.asarray(subs)
    vals = np.asarray(vals)
    if subs.size == 0 and vals.size == 0:
        return a, None
    if subs.ndim != 2 or subs.shape[1] != len(shape):
        return None, f"subs has shape {subs.shape} for tensor shape {shape}"
    if vals.reshape(-1).shape[0] != subs.shape[0]:
        return None, f"{subs.shape[0]} subscripts but {vals.size} values"
    if subs.dtype.kind not in "iu":
        if not np.all(subs == np.round(subs)):
            return None, "non-integral subscripts"
        subs = subs.astype(int)
    if (subs < 0).any() or (subs >= np.array(shape)).any():
        return None, f"stored subscript out of range: subs={subs.tolist()} shape={shape}"
    seen = set()
    for row, v in zip(subs.tolist(), vals.reshape(-1).tolist()):
        t = tuple(row)
        if t in seen:
            return None, f"duplicate stored subscript {t}"
        seen.add(t)
        if v == 0:
            return None, f"explicit zero stored at {t}"
        a[t] = v
    return a, None


# ------------------------------------------------------------------------- engine
READ_OPS = ["r_full", "r_subs", "r_lin", "r_region"]
WRITE_OPS = ["w_full", "w_subs", "w_lin", "w_region"]
BAD_OPS = ["bad_subs_count", "bad_subs_cols", "bad_lin_beyond", "bad_region_shape", "bad_sparse_neg_subs", "bad_region_shape_grow", "bad_lin_read_beyond"]


ITYPES = {"i64": np.int64, "i32": np.int32, "i16": np.int16, "i8": np.int8, "u8": np.uint8, "u16": np.uint16, "u32": np.uint32, "u64": np.uint64, "intp": np.intp}


def _fits(tname, values) -> bool:
    info = np.iinfo(ITYPES[tname])
    return all(info.min <= int(v) <= info.max for v in values)


def cast_int(step, k):
    """A python int of a key, handed over as the numpy integer type the step names (if it fits)."""
    t = step.get("ityp")
    if t is None or isinstance(k, bool) or not isinstance(k, int) or not _fits(t, [k]):
        return k
    return ITYPES[t](k)


def cast_scalar(step, v):
    """A scalar right-hand side handed over as the numpy scalar type the step names (values that come out of numpy
    arrays are numpy scalars, not python numbers) -- only where that type holds the value exactly."""
    t = step.get("sform")
    if t is None or isinstance(v, (list, bool)) or not isinstance(v, (int, float)):
        return v
    if t in ("int64", "int32", "uint8", "int16"):
        if float(v) != int(v) or not _fits({"int64": "i64", "int32": "i32", "uint8": "u8", "int16": "i16"}[t], [int(v)]):
            return v
        return np.dtype(t).type(int(v))
    c = np.dtype(t).type(v)
    return c if float(c) == float(v) else v


def cast_arr(step, arr):
    """An index / subscript array in the integer type and memory layout the step names."""
    t = step.get("ityp")
    if t is not None and arr.size and _fits(t, [arr.min(), arr.max()]):
        arr = arr.astype(ITYPES[t])
    lay = step.get("alay")
    if lay == "F":
        arr = np.asfortranarray(arr)
    elif lay == "T" and arr.ndim == 2:
        arr = np.ascontiguousarray(arr.T).T  # a transposed view of another array
    elif lay == "S":
        # a strided view into a wider buffer (every second column / element)
        if arr.ndim == 2:
            big = np.full((arr.shape[0], 2 * arr.shape[1]), 1, dtype=arr.dtype)
            big[:, ::2] = arr
            arr = big[:, ::2]
        elif arr.ndim == 1:
            big = np.full(2 * arr.shape[0], 1, dtype=arr.dtype)
            big[::2] = arr
            arr = big[::2]
    return arr


def key_to_py(key):
    """Region key from its recorded form: list of int | slice | list[int]."""
    return [k for k in key]


class EngineA:
    name = "tensor-history"

    def __init__(self, prop: str, steer: List[str]):
        import pyttb as ttb

        self.ttb = ttb
        self.prop = prop  # "C04" or "C19"
        self.steer = set(steer)
        self._integer = False
        self._val_scale = 1.0
        self._maxext = MAX_EXTENT

    # ---------------------------------------------------------------- generation
    def run(self, run_seed: int, tier: str) -> RunResult:
        st = Streams(run_seed)
        g = st.get("gen")
        sw = st.get("swarm")
        res = RunResult()
        if self.prop == "C04" and sw.random() < 0.03:
            return self._run_huge(sw, g, res)
        # swarm configuration for this run
        order = weighted(sw, [(1, 1), (2, 4), (3, 4), (4, 1)])
        shape = [sw.randint(1, 4) for _ in range(order)]
        pattern = weighted(sw, [("empty", 2), ("full", 1), ("random", 5), ("single", 1)])
        if sw.random() < 0.04:
            shape = []  # a tensor constructed without arguments: everything comes from growth
            pattern = "empty"
        # a few runs use tensors with several hundred elements, and requests that name several hundred positions
        large = sw.random() < 0.06
        if large:
            shape = weighted(sw, [([sw.randint(13, 24), sw.randint(13, 24)], 5), ([sw.randint(6, 9) for _ in range(3)], 3), (sw.choice([[sw.randint(300, 700), 2], [2, sw.randint(300, 700)], [sw.randint(150, 300), 3]]), 3)])
            pattern = weighted(sw, [("empty", 1), ("full", 1), ("random", 4)])
        positions = list(itertools.product(*[range(s) for s in shape]))
        if pattern == "empty":
            nz = []
        elif pattern == "full":
            nz = positions
        elif pattern == "single":
            nz = [sw.choice(positions)]
        else:
            k = sw.randint(1, min(len(positions), 300 if large else 10))
            nz = sw.sample(positions, k)
        nz = list(nz)
        sw.shuffle(nz)  # stored order of the sparse tensor: arbitrary
        integer = sw.random() < 0.15  # integer-typed storage; such runs only ever write integral values
        # magnitude of the values of this run (exact powers of two): only an exact zero is "zero"
        val_scale = 1.0 if integer else sw.choice([1.0, 1.0, 1.0, 1.0, 2.0**-40, 2.0**-200, 2.0**60])
        cfg = {
            "shape": shape,
            "subs": [list(p) for p in nz],
            "vals": [float(-(i + 1)) if integer else float(-(i + 1) - 0.25) * val_scale for i in range(len(nz))],
            "integer": integer,
            "val_scale": val_scale,
            "c_order": sw.random() < 0.2,
            "n_steps": sw.randint(4, 30 if tier == "thorough" else 24),
            "p_read": sw.choice([0.2, 0.35, 0.5]),
            "p_neg": sw.choice([0.0, 0.15, 0.3]),
            "p_grow": sw.choice([0.0, 0.1, 0.25]),
            "p_ordergrow": sw.choice([0.0, 0.03, 0.08]),
            "p_zero": sw.choice([0.1, 0.25, 0.4]),
            "p_bad": (sw.choice([0.15, 0.3]) if self.prop == "C19" else sw.choice([0.0, 0.0, 0.05])),
            "w_ops": {op: sw.choice([0, 1, 2, 3]) for op in WRITE_OPS},
            "r_ops": {op: sw.choice([1, 2, 3]) for op in READ_OPS},
            # how often the integers of a key arrive as numpy integer types / its arrays in another layout
            "p_ityp": sw.choice([0.0, 0.0, 0.25, 0.6]),
            # how often a scalar right-hand side is a whole number given as a python int (into float storage too)
            "p_intscalar": sw.choice([0.0, 0.0, 0.3, 0.6]),
        }
        if sum(cfg["w_ops"].values()) == 0:
            cfg["w_ops"]["w_subs"] = 1
        if large and max(shape) >= 50:
            cfg["r_ops"]["r_region"] = 6
            cfg["w_ops"]["w_region"] = 6
        if large:
            cfg.update({"large": True, "n_steps": sw.randint(3, 9), "p_grow": sw.choice([0.0, 0.05]), "p_ordergrow": 0.0})
        res.init = cfg
        self._integer = integer
        self._val_scale = val_scale
        world = self._start(cfg, res)
        if world is None:
            return self._finish(res)
        counter = [0]
        for i in range(cfg["n_steps"]):
            step = self._gen_step(world, cfg, g, counter)
            if step is None:
                continue
            res.steps.append(step)
            if not self._exec_step(world, step, len(res.steps) - 1, res):
                break
        return self._finish(res)

    def _run_huge(self, sw, g, res: RunResult) -> RunResult:
        """Sparse-only scenario with modes of 2**24 .. 2**40 (see engine_a_huge)."""
        from . import engine_a_huge

        cfg = engine_a_huge.gen_init(sw)
        res.init = cfg
        world = self._start(cfg, res)
        if world is None:
            return self._finish(res)
        counter = [0]
        for _ in range(cfg["n_steps"]):
            step = self._huge.gen_step(world["m"], g, counter)
            if step is None:
                continue
            res.steps.append(step)
            if not self._exec_step(world, step, len(res.steps) - 1, res):
                break
        return self._finish(res)

    def _finish(self, res: RunResult) -> RunResult:
        res.nontrivial = (
            res.stats.get("writes_effective", 0) >= 2
            and res.stats.get("steps", 0) >= 3
        )
        return res

    def replay(self, rec: Dict[str, Any]) -> RunResult:
        res = RunResult()
        res.init = rec["init"]
        world = self._start(rec["init"], res)
        if world is None:
            return self._finish(res)
        for i, step in enumerate(rec["steps"]):
            res.steps.append(step)
            if not self._exec_step(world, step, i, res):
                break
        return self._finish(res)

    # -------------------------------------------------------------------- world
    def _start(self, cfg, res: RunResult):
        ttb = self.ttb
        if cfg.get("huge"):
            from . import engine_a_huge

            self._huge = engine_a_huge.HugeScenario(self)
            return self._huge.start(cfg, res)
        shape = tuple(cfg["shape"])
        m = Model(shape)
        self._maxext = max([MAX_EXTENT] + [s + 1 for s in shape]) if cfg.get("large") else MAX_EXTENT
        for p, v in zip(cfg["subs"], cfg["vals"]):
            m.set(p, v)
        if len(shape) == 0:
            world = {"m": m, "D": ttb.tensor(), "S": ttb.sptensor(), "lastop": "init"}
            return world
        dt = np.int64 if cfg.get("integer") else float
        arr = m.dense().astype(dt)
        arr = np.ascontiguousarray(arr) if cfg.get("c_order") else np.asfortranarray(arr)
        dense = ttb.tensor(arr, copy=True)
        if len(cfg["subs"]):
            subs = np.array(cfg["subs"], dtype=int).reshape(len(cfg["subs"]), len(shape))
            vals = np.array(cfg["vals"], dtype=dt).reshape(-1, 1)
            sparse = ttb.sptensor(subs, vals, shape)
        else:
            sparse = ttb.sptensor(shape=shape)
        world = {"m": m, "D": dense, "S": sparse, "lastop": "init"}
        v = self._check_state(world, -1, "init")
        if v is not None:
            res.violation = v
            return None
        return world

    # --------------------------------------------------------------- generators
    def _int_index(self, m: Model, d: int, g, cfg, write: bool):
        ext = m.shape[d]
        if write and g.random() < cfg["p_grow"] and ext < self._maxext:
            return g.randint(ext, min(self._maxext - 1, ext + 1))
        i = g.randrange(ext)
        if g.random() < cfg["p_neg"]:
            return i - ext
        return i

    def _slice(self, m: Model, d: int, g, cfg, write: bool):
        ext = m.shape[d]
        form = g.choice(["all", "from", "to", "both", "both"])
        if write and g.random() < cfg["p_grow"] and ext < self._maxext:
            stop = g.randint(ext + 1, min(self._maxext, ext + 2))
            start = g.randint(0, stop - 1)
            return slice(start if g.random() < 0.7 else None, stop, None)
        if ext >= 2 and g.random() < 0.15:
            # a stride (never growing): forwards or backwards, bounds given or left open
            step = g.choice([2, 3, -1, -2, -2, -3])
            lo = g.randrange(ext - 1)
            hi = g.randint(lo + 1, ext - 1)
            if step > 0:
                return slice(lo if g.random() < 0.6 else None, hi + 1 if g.random() < 0.6 else None, step)
            return slice(hi if g.random() < 0.6 else None, (lo - 1 if lo >= 1 else None) if g.random() < 0.6 else None, step)
        if form == "all":
            return slice(None, None, None)
        a = g.randrange(ext)
        b = g.randint(a + 1, ext)
        if form == "from":
            return slice(a, None, None)
        if form == "to":
            return slice(None, b, None)
        if g.random() < cfg["p_neg"]:
            # negative bounds: same non-empty range expressed from the end
            na = a - ext
            nb = b - ext
            if nb == 0:
                return slice(na, None, None)
            return slice(na, nb, None)
        return slice(a, b, None)

    def _list(self, m: Model, d: int, g, cfg, write: bool):
        ext = m.shape[d]
        hi = ext
        if write and g.random() < cfg["p_grow"] and ext < self._maxext:
            hi = min(self._maxext, ext + 1)
        if hi < 2:
            return None
        k = g.randint(2, min(hi, 3))
        if cfg.get("large") and ext >= 50 and g.random() < 0.6:
            k = g.randint(12, 30)  # a long index list spread over a long mode
        lst = g.sample(range(hi), k)
        if hi > ext and (hi - 1) not in lst:
            lst[0] = hi - 1
            if len(set(lst)) != len(lst):
                return None
        return lst

    def _region_key(self, m: Model, g, cfg, write: bool, extra_modes: int = 0):
        key = []
        n_lists = 0
        for d in range(m.order):
            kind = weighted(g, [("int", 3), ("slice", 4), ("list", 2)] if not (cfg.get("large") and m.shape[d] >= 50) else [("int", 1), ("slice", 2), ("list", 6)])
            if kind == "list":
                lst = self._list(m, d, g, cfg, write)
                if lst is None:
                    kind = "slice"
                else:
                    key.append(lst)
                    n_lists += 1
                    continue
            if kind == "int":
                key.append(self._int_index(m, d, g, cfg, write))
            else:
                key.append(self._slice(m, d, g, cfg, write))
        for _ in range(extra_modes):
            if g.random() < 0.6:
                key.append(g.randint(0, 1))
            else:
                key.append(slice(0, g.randint(1, 2), None))
        return key

    def _next_scalar(self, counter, g, cfg):
        """A scalar right-hand side; in some runs whole numbers handed over as python ints."""
        v = self._next_val(counter)
        if self._val_scale == 1.0 and g.random() < cfg.get("p_intscalar", 0.0):
            return int(counter[0])
        return v

    def _next_val(self, counter) -> float:
        counter[0] += 1
        return float(counter[0]) if self._integer else (counter[0] + 0.5) * self._val_scale

    def _triggers(self, m: Model, step) -> set:
        """Names of known-finding triggers that ``step`` would hit in state ``m``."""
        t = set()
        op = step["op"]
        if op in ("r_region", "w_region"):
            key = dec(step["key"])
            n_list = sum(isinstance(k, list) for k in key)
            adv = [d for d, k in enumerate(key) if not isinstance(k, slice)]
            if n_list >= 2:
                t.add("dense_region_two_index_lists")
            if n_list == 1 and len(adv) >= 2 and adv != list(range(adv[0], adv[0] + len(adv))):
                t.add("dense_region_split_advanced_indices")
        return t

    def _gen_step(self, w, cfg, g, counter) -> Optional[Dict[str, Any]]:
        for _ in range(20):
            step = self._gen_step_once(w, cfg, g, counter)
            if step is None:
                continue
            if self.steer and (self._triggers(w["m"], step) & self.steer):
                # a known finding of the dense class: the dense tensor is driven by the
                # equivalent subscript-array form so that the history (and the sparse
                # tensor, which handles this key natively) keeps going
                step["dense_via_subs"] = True
            if step["op"].startswith("w_") and g.random() < cfg.get("p_ityp", 0.0):
                step["sform"] = g.choice(["float64", "float32", "int64", "int32", "uint8", "int16"])
            if not step["op"].startswith("bad_") and g.random() < cfg.get("p_ityp", 0.0):
                step["ityp"] = g.choice(["i64", "i32", "i32", "i16", "i8", "u8", "u8", "u16", "u32", "u64", "intp"])
                if g.random() < 0.4:
                    step["alay"] = g.choice(["F", "T", "S"])
            return step
        return None

    def _gen_step_once(self, w, cfg, g, counter):
        m: Model = w["m"]
        if m.order == 0:
            # only growth out of nothing is meaningful
            n_new = g.randint(1, 3)
            if g.random() < 0.5:
                return {"op": "w_full", "key": enc([g.randint(0, 2) for _ in range(n_new)]), "val": self._next_val(counter)}
            rows = sorted({tuple(g.randint(0, 2) for _ in range(n_new)) for _ in range(g.randint(1, 3))})
            return {"op": "w_subs", "subs": [list(r) for r in rows], "vals": self._gen_vals(len(rows), g, cfg, counter)}
        if m.size() == 0:
            return None
        if g.random() < cfg["p_bad"]:
            return self._gen_bad(w, cfg, g, counter)
        if g.random() < cfg["p_read"]:
            op = weighted(g, list(cfg["r_ops"].items()))
        else:
            op = weighted(g, list(cfg["w_ops"].items()))
        N = m.order
        if op == "r_full":
            key = [self._int_index(m, d, g, cfg, False) for d in range(N)]
            return {"op": op, "key": enc(key)}
        if op == "r_subs":
            p = g.randint(1, 4) if not (cfg.get("large") and g.random() < 0.6) else g.randint(200, 420)
            subs = [[g.randrange(m.shape[d]) for d in range(N)] for _ in range(p)]
            return {"op": op, "subs": subs}
        if op in ("r_lin", "w_lin"):
            n = m.size()
            form = weighted(g, [("int", 3), ("list", 2), ("array", 2), ("slice", 2)])
            write = op == "w_lin"
            if form == "int":
                k = g.randrange(n)
                if g.random() < cfg["p_neg"]:
                    k -= n
                key: Any = k
                count = 1
            elif form in ("list", "array"):
                if n < 2:
                    return None
                cnt = g.randint(2, min(n, 4)) if not (cfg.get("large") and g.random() < 0.6) else g.randint(min(n, 200), min(n, 420))
                ks = g.sample(range(n), cnt)
                if g.random() < cfg["p_neg"]:
                    j = g.randrange(cnt)
                    ks[j] -= n
                key = ks
                count = cnt
            else:
                a = g.randrange(n)
                b = g.randint(a + 1, n)
                sform = g.choice(["all", "from", "to", "both"])
                if sform == "all":
                    key = slice(None, None, None)
                    count = n
                elif sform == "from":
                    key = slice(a, None, None)
                    count = n - a
                elif sform == "to":
                    key = slice(None, b, None)
                    count = b
                else:
                    key = slice(a, b, None)
                    count = b - a
                if count > (1200 if cfg.get("large") else 12):
                    return None
            step = {"op": op, "form": form, "key": enc(key)}
            if write:
                step["vals"] = self._gen_vals(count, g, cfg, counter)
            return step
        if op == "r_region":
            key = self._region_key(m, g, cfg, False)
            if all(isinstance(k, int) for k in key):
                return None
            st = {"op": op, "key": enc(key)}
            if any(isinstance(k, list) for k in key) and g.random() < 0.4:
                st["lists_as_arrays"] = True  # index lists handed over as numpy arrays
            return st
        if op == "w_full":
            extra = 0
            if g.random() < cfg["p_ordergrow"] and N < MAX_ORDER:
                extra = 1
            key = [self._int_index(m, d, g, cfg, True) for d in range(N)] + [g.randint(0, 1) for _ in range(extra)]
            v = 0 if g.random() < cfg["p_zero"] else self._next_scalar(counter, g, cfg)
            return {"op": op, "key": enc(key), "val": v}
        if op == "w_subs":
            extra = 0
            if g.random() < cfg["p_ordergrow"] and N < MAX_ORDER:
                extra = 1
            p = g.randint(1, 4) if not (cfg.get("large") and g.random() < 0.6) else g.randint(200, 420)
            rows = set()
            for _ in range(p):
                row = []
                for d in range(N):
                    i = self._int_index(m, d, g, cfg, True)
                    if i < 0:
                        i += m.shape[d]
                    row.append(i)
                for _ in range(extra):
                    row.append(g.randint(0, 1))
                rows.add(tuple(row))
            rows = sorted(rows)
            g.shuffle(rows)
            return {"op": op, "subs": [list(r) for r in rows], "vals": self._gen_vals(len(rows), g, cfg, counter), "vform": g.choice(["list", "list", "array", "column"])}
        if op == "w_region":
            extra = 0
            if g.random() < cfg["p_ordergrow"] and N < MAX_ORDER:
                extra = 1
            if g.random() < 0.08 and m.size() <= 64 and not extra:
                # the tensor assigned into a region of itself (same shape: reversed, permuted or shifted modes)
                key = []
                for d in range(N):
                    ext = m.shape[d]
                    # (no growth: a receiver that grows while it is also the right-hand side has no defined meaning)
                    forms = ["all", "rev"] + (["perm"] if ext >= 2 else [])
                    f = g.choice(forms)
                    if f == "all":
                        key.append(slice(None, None, None))
                    elif f == "rev":
                        key.append(slice(None, None, -1))
                    elif f == "perm":
                        p = list(range(ext))
                        g.shuffle(p)
                        key.append(p)
                    else:
                        a = g.randint(1, self._maxext - ext)
                        key.append(slice(a, a + ext, None))
                return {"op": op, "key": enc(key), "rhs": {"kind": "self"}}
            key = self._region_key(m, g, cfg, True, extra)
            newshape = m.region_target_shape(key)
            lists, kept = m.region_lists(key, newshape)
            cnt = 1
            for lst in lists:
                cnt *= len(lst)
            if cnt == 0 or cnt > (1200 if cfg.get("large") else 24):
                return None
            rshape = [len(lists[d]) for d in kept]
            kind = weighted(g, [("scalar", 3), ("zero", 2), ("tensor", 3)])
            if kind == "tensor" and not kept:
                kind = "scalar"
            if kind == "scalar":
                rhs = {"kind": "scalar", "val": self._next_scalar(counter, g, cfg)}
            elif kind == "zero":
                rhs = {"kind": "scalar", "val": 0}
            else:
                vals = [
                    (0.0 if g.random() < cfg["p_zero"] else self._next_val(counter)) for _ in range(cnt)
                ]
                rhs = {"kind": "tensor", "shape": rshape, "vals_f": vals}
            if rhs["kind"] == "scalar" and any(isinstance(k, list) for k in key) and g.random() < 0.12:
                # one and the same scalar for the whole region: an index list may then name an index twice
                d = g.choice([j for j, k in enumerate(key) if isinstance(k, list)])
                lst = list(key[d])
                lst.insert(g.randrange(len(lst) + 1), g.choice(lst))
                key = list(key)
                key[d] = lst
                st = {"op": op, "key": enc(key), "rhs": rhs, "repeats": True}
            else:
                st = {"op": op, "key": enc(key), "rhs": rhs}
            if any(isinstance(k, list) for k in key) and g.random() < 0.4:
                st["lists_as_arrays"] = True
            return st
        return None

    def _gen_vals(self, count: int, g, cfg, counter):
        if count >= 1 and g.random() < 0.3:
            return 0 if g.random() < cfg["p_zero"] else self._next_scalar(counter, g, cfg)
        return [(0.0 if g.random() < cfg["p_zero"] else self._next_val(counter)) for _ in range(count)]

    def _gen_bad(self, w, cfg, g, counter):
        m: Model = w["m"]
        N = m.order
        kind = g.choice(BAD_OPS)
        if kind == "bad_subs_count":
            p = g.randint(2, 4)
            rows = set()
            grow = g.random() < 0.3  # subscripts beyond the extent: a rejected call must not have grown the tensor
            extra = 1 if (g.random() < 0.3 and N < MAX_ORDER) else 0  # one subscript too many per row: the order would grow
            for _ in range(p):
                rows.add(tuple(g.randrange(m.shape[d] + (1 if grow else 0)) for d in range(N)) + tuple(g.randint(0, 1) for _ in range(extra)))
            rows = sorted(rows)
            if len(rows) < 2:
                return None
            q = g.choice([n for n in range(2, 7) if n != len(rows)])
            return {"op": kind, "subs": [list(r) for r in rows], "vals": [self._next_val(counter) for _ in range(q)]}
        if kind == "bad_subs_cols":
            if N < 2:
                return None
            p = g.randint(2, 3)
            cols = N - 1
            rows = [[0 for _ in range(cols)] for _ in range(p)]
            for i, r in enumerate(rows):
                for d in range(cols):
                    r[d] = g.randrange(m.shape[d])
            return {"op": kind, "subs": rows, "vals": [self._next_val(counter) for _ in range(p)]}
        if kind == "bad_lin_beyond":
            n = m.size()
            # the first linear index that does not exist (the element count itself), or one further out
            return {"op": kind, "key": n + g.choice([0, 0, 1, 2, 5]), "form": g.choice(["int", "array", "list"]), "val": self._next_val(counter)}
        if kind == "bad_lin_read_beyond":
            n = m.size()
            return {"op": kind, "key": g.choice([n, n, n + 1, n + 3, -n - 1, -n - 2]), "form": g.choice(["int", "array", "list"])}
        if kind == "bad_region_shape":
            key = []
            for d in range(N):
                if m.shape[d] >= 2 and g.random() < 0.6:
                    a = g.randrange(m.shape[d] - 1)
                    key.append(slice(a, g.randint(a + 2, m.shape[d]), None))
                else:
                    key.append(g.randrange(m.shape[d]))
            lists, kept = m.region_lists(key)
            if not kept:
                return None
            rshape = [len(lists[d]) for d in kept]
            bad = list(rshape)
            j = g.randrange(len(bad))
            bad[j] = bad[j] + g.randint(1, 2)
            cnt = int(np.prod(bad))
            return {
                "op": kind,
                "key": enc(key),
                "rhs": {"kind": "tensor", "shape": bad, "vals_f": [self._next_val(counter) for _ in range(cnt)]},
            }
        if kind == "bad_region_shape_grow":
            # a region that reaches beyond the present extent, and a right-hand side of another shape: the rejected
            # call must not have grown the receiver
            key = []
            for d in range(N):
                ext = m.shape[d]
                r = g.random()
                if r < 0.5 and ext < self._maxext:
                    a = g.randrange(ext + 1)
                    key.append(slice(a, g.randint(max(a + 2, ext + 1), max(a + 2, ext + 2)), None))
                elif r < 0.8 and ext >= 2:
                    a = g.randrange(ext - 1)
                    key.append(slice(a, g.randint(a + 2, ext), None))
                else:
                    key.append(g.randrange(ext))
            if not any(isinstance(k, slice) and k.stop > m.shape[d] for d, k in enumerate(key)):
                return None
            newshape = m.region_target_shape(key)
            lists, kept = m.region_lists(key, newshape)
            rshape = [len(lists[d]) for d in kept]
            bad = list(rshape)
            j = g.randrange(len(bad))
            bad[j] = bad[j] + g.randint(1, 2)
            cnt = int(np.prod(bad))
            return {
                "op": kind,
                "key": enc(key),
                "form": g.choice(["tensor", "ndarray", "sptensor"]),
                "rhs": {"kind": "tensor", "shape": bad, "vals_f": [self._next_val(counter) for _ in range(cnt)]},
            }
        if kind == "bad_sparse_neg_subs":
            p = g.randint(1, 3)
            rows = [[g.randrange(m.shape[d]) for d in range(N)] for _ in range(p)]
            i = g.randrange(p)
            d = g.randrange(N)
            rows[i][d] = -1 - g.randrange(m.shape[d])
            return {"op": kind, "subs": rows, "val": self._next_val(counter)}
        return None

    # ---------------------------------------------------------------- execution
    def _viol(self, oracle, op, i, detail, prop=None):
        return Violation(prop or "C04", oracle, op, i, detail)

    def _check_state(self, w, i, op) -> Optional[Violation]:
        m: Model = w["m"]
        D, S = w["D"], w["S"]
        if m.order == 0:
            if tuple(D.shape) != () or D.data.size != 0 or tuple(S.shape) != () or np.asarray(S.vals).size != 0:
                return self._viol("dense_state_equals_model", op, i, f"empty tensors changed without a write: {D.shape} {S.shape}")
            return None
        want = m.dense()
        try:
            dshape = tuple(int(s) for s in D.shape)
        except Exception as e:  # noqa: BLE001
            return self._viol("dense_state_equals_model", op, i, f"unreadable shape {D.shape!r}: {e!r}")
        if dshape != tuple(m.shape) or tuple(D.data.shape) != tuple(m.shape):
            return self._viol(
                "dense_state_equals_model",
                op,
                i,
                f"dense shape {D.shape} (data {D.data.shape}) but model shape {tuple(m.shape)}",
            )
        if not np.array_equal(D.data, want):
            bad = np.argwhere(D.data != want)[:4].tolist()
            return self._viol(
                "dense_state_equals_model",
                op,
                i,
                f"dense data differs from model at {bad}: got {[D.data[tuple(b)] for b in bad]} want {[want[tuple(b)] for b in bad]}",
            )
        try:
            sshape = tuple(int(s) for s in S.shape)
        except Exception as e:  # noqa: BLE001
            return self._viol("sparse_state_equals_model", op, i, f"unreadable shape {S.shape!r}: {e!r}")
        if sshape != tuple(m.shape):
            return self._viol(
                "sparse_state_equals_model", op, i, f"sparse shape {S.shape} but model shape {tuple(m.shape)}"
            )
        got, problem = densify(S.subs, S.vals, sshape)
        if problem is not None:
            return self._viol("sparse_wellformed", op, i, problem)
        if not np.array_equal(got, want):
            bad = np.argwhere(got != want)[:4].tolist()
            return self._viol(
                "sparse_state_equals_model",
                op,
                i,
                f"sparse content differs from model at {bad}: got {[got[tuple(b)] for b in bad]} want {[want[tuple(b)] for b in bad]}"
                f" (subs={np.asarray(S.subs).tolist()}, vals={np.asarray(S.vals).reshape(-1).tolist()})",
            )
        return None

    def _snapshot(self, w):
        D, S = w["D"], w["S"]
        return (
            tuple(D.shape),
            D.data.copy(),
            tuple(S.shape),
            np.array(S.subs, copy=True),
            np.array(S.vals, copy=True),
        )

    def _same_as(self, w, snap) -> Optional[str]:
        D, S = w["D"], w["S"]
        if tuple(D.shape) != snap[0] or D.data.shape != snap[1].shape or not np.array_equal(D.data, snap[1]):
            return f"dense tensor changed: shape {snap[0]} -> {tuple(D.shape)}"
        if tuple(S.shape) != snap[2]:
            return f"sparse tensor shape changed: {snap[2]} -> {tuple(S.shape)}"
        if np.asarray(S.subs).shape != snap[3].shape or not np.array_equal(S.subs, snap[3]):
            return "sparse tensor subscripts changed"
        if np.asarray(S.vals).shape != snap[4].shape or not np.array_equal(S.vals, snap[4]):
            return "sparse tensor values changed"
        return None

    @staticmethod
    def _flat(x):
        return np.asarray(x, dtype=float).reshape(-1)

    def _exec_step(self, w, step, i, res: RunResult) -> bool:
        """Execute one recorded step; returns False when the run must stop."""
        if w.get("huge"):
            if not str(step.get("op", "")).startswith("hs_"):
                res.bump("skipped")
                return True
            with warnings.catch_warnings():
                warnings.simplefilter("ignore")
                return self._huge.exec_step(w, step, i, res)
        m: Model = w["m"]
        op = step["op"]
        with warnings.catch_warnings():
            warnings.simplefilter("ignore")
            try:
                status = self._dispatch(w, step, i, res)
            except _Stop as s:
                status = s.v
        if status == "skip":
            res.events.append([i, op, "skip"])
            res.bump("skipped")
            return True
        res.bump("steps")
        res.bump("op:" + op)
        if isinstance(status, Violation) and self.prop == "C19" and status.prop != "C19":
            # a C04-class discrepancy seen while hunting C19: not this check's business (C04 reports it)
            res.bump("probe:c04_discrepancy_in_c19_history")
            return False
        if isinstance(status, Violation):
            res.violation = status
            res.events.append([i, op, "violation", status.oracle])
            return False
        if status == "end":
            return False
        v = self._check_state(w, i, op)
        if v is None and op.startswith("w_"):
            v = self._check_kept(w, i, op)
        if v is not None and self.prop == "C19":
            res.bump("probe:c04_discrepancy_in_c19_history")
            return False
        if v is not None:
            res.violation = v
            res.events.append([i, op, "violation", v.oracle])
            return False
        key = H(tuple(m.shape), tuple(sorted(m.cells)), self._perm_class(w), op)
        res.states.add(key)
        res.events.append([i, op, list(m.shape), len(m.cells)])
        w["lastop"] = op
        return True

    def _perm_class(self, w) -> int:
        S = w["S"]
        subs = np.asarray(S.subs)
        if subs.size == 0 or subs.ndim != 2 or subs.shape[0] < 2:
            return 0
        rows = [tuple(r) for r in subs.tolist()]
        return 0 if rows == sorted(rows) else 1

    # each op: returns None (ok) | "skip" | "end" | Violation
    def _dispatch(self, w, step, i, res):
        op = step["op"]
        return getattr(self, "_op_" + op)(w, step, i, res)

    @staticmethod
    def _forms(step) -> str:
        if step.get("ityp") or step.get("alay") or step.get("sform"):
            return f" [integers as {step.get('ityp', 'int')}, arrays {step.get('alay', 'C')}, scalar as {step.get('sform', 'python number')}]"
        return ""

    def _call(self, fn, what, op, i):
        """Run SUT code; an exception on an admissible request is a violation."""
        try:
            return fn()
        except Exception as e:  # noqa: BLE001
            raise _Stop(self._viol("no_exception_on_admissible_request", op, i, f"{what} raised {type(e).__name__}: {e}"))

    # ---- reads
    def _op_r_full(self, w, step, i, res):
        m = w["m"]
        key = dec(step["key"])
        if len(key) != m.order or any(not (-m.shape[d] <= k < m.shape[d]) for d, k in enumerate(key)):
            return "skip"
        want = m.get(m.norm(key))
        for name in ("D", "S"):
            got = self._call(lambda: w[name][tuple(cast_int(step, k) for k in key)], f"{name}[{tuple(key)}]{self._forms(step)}", "r_full", i)
            if np.ndim(got) != 0 and np.size(got) != 1:
                return self._viol("read_returns_model_value", "r_full", i, f"{name}[{tuple(key)}] returned non-scalar {got!r}")
            if float(np.asarray(got).reshape(-1)[0]) != want:
                return self._viol("read_returns_model_value", "r_full", i, f"{name}[{tuple(key)}] = {got!r}, model says {want}")
        if any(k < 0 for k in key):
            res.bump("probe:negative_index_read")
        return None

    def _op_r_subs(self, w, step, i, res):
        m = w["m"]
        subs = step["subs"]
        if any(len(r) != m.order or any(not (0 <= r[d] < m.shape[d]) for d in range(m.order)) for r in subs):
            return "skip"
        want = np.array([m.get(r) for r in subs])
        for name in ("D", "S"):
            arr = cast_arr(step, np.array(subs, dtype=int).reshape(len(subs), m.order))
            got = self._call(lambda: w[name][arr], f"{name}[subs {subs}]{self._forms(step)}", "r_subs", i)
            g = self._flat(got)
            if g.shape != want.shape or not np.array_equal(g, want):
                return self._viol("read_returns_model_value", "r_subs", i, f"{name}[{subs}] = {g.tolist()}, model says {want.tolist()}")
        return None

    def _lin_positions(self, m: Model, key):
        n = m.size()
        if isinstance(key, slice):
            ks = list(range(n)[key])
        elif isinstance(key, list):
            ks = list(key)
        else:
            ks = [key]
        if not ks or any(not (-n <= k < n) for k in ks):
            return None
        return [m.lin2sub(k) for k in ks]

    def _lin_key(self, step):
        key = dec(step["key"])
        if step["form"] == "array":
            return cast_arr(step, np.array(key, dtype=int))
        if step["form"] == "int":
            return cast_int(step, key)
        return key

    def _op_r_lin(self, w, step, i, res):
        m = w["m"]
        pos = self._lin_positions(m, dec(step["key"]))
        if pos is None:
            return "skip"
        want = np.array([m.get(p) for p in pos])
        for name in ("D", "S"):
            key = self._lin_key(step)
            got = self._call(lambda: w[name][key], f"{name}[linear {step['key']}]", "r_lin", i)
            g = self._flat(got)
            if g.shape != want.shape or not np.array_equal(g, want):
                return self._viol(
                    "read_returns_model_value", "r_lin", i, f"{name}[linear {dec(step['key'])!r}] = {g.tolist()}, model says {want.tolist()}"
                )
        res.bump("probe:linear_read")
        return None

    def _region_ok_for_read(self, m: Model, key) -> bool:
        if len(key) != m.order:
            return False
        for d, k in enumerate(key):
            if isinstance(k, slice):
                if len(range(m.shape[d])[k]) == 0:
                    return False
            elif isinstance(k, list):
                if len(k) < 2 or len(set(k)) != len(k) or any(not (0 <= j < m.shape[d]) for j in k):
                    return False
            elif not (-m.shape[d] <= k < m.shape[d]):
                return False
        return True

    def _op_r_region(self, w, step, i, res):
        m = w["m"]
        key = dec(step["key"])
        if not self._region_ok_for_read(m, key) or all(isinstance(k, int) for k in key):
            return "skip"
        lists, kept = m.region_lists(key)
        rshape = tuple(len(lists[d]) for d in kept)
        want = np.zeros(rshape)
        for idx in itertools.product(*[range(n) for n in rshape]):
            pos = [lists[d][0] for d in range(m.order)]
            for j, d in enumerate(kept):
                pos[d] = lists[d][idx[j]]
            want[idx] = m.get(pos)
        for name in ("D", "S"):
            if name == "D" and step.get("dense_via_subs"):
                allpos = [list(p) for p in itertools.product(*lists)]
                arr = np.array(allpos, dtype=int).reshape(len(allpos), m.order)
                got = self._call(lambda: w["D"][arr], f"D[subs of region {key}]", "r_region", i)
                wantflat = np.array([m.get(p) for p in allpos])
                if not np.array_equal(self._flat(got), wantflat):
                    return self._viol("read_returns_model_value", "r_region", i, f"D[subs of region {key}] = {self._flat(got).tolist()}, model says {wantflat.tolist()}")
                res.bump("probe:dense_mirrored_by_subscripts")
                continue
            got = self._call(lambda: w[name][self._akey(step, key)], f"{name}[region {key}]", "r_region", i)
            if name == "D":
                if not isinstance(got, self.ttb.tensor):
                    return self._viol("read_returns_model_value", "r_region", i, f"D[{key}] returned {type(got).__name__}, expected tensor")
                gs, ga = tuple(got.shape), np.asarray(got.data)
            else:
                if not isinstance(got, self.ttb.sptensor):
                    return self._viol("read_returns_model_value", "r_region", i, f"S[{key}] returned {type(got).__name__}, expected sptensor")
                gs = tuple(int(s) for s in got.shape)
                ga, problem = densify(got.subs, got.vals, gs)
                if problem is not None:
                    return self._viol("read_returns_model_value", "r_region", i, f"S[{key}] result malformed: {problem}")
            if gs != rshape or ga.shape != rshape or not np.array_equal(ga, want):
                return self._viol(
                    "read_returns_model_value",
                    "r_region",
                    i,
                    f"{name}[{key}] has shape {gs} values {np.asarray(ga).tolist()}, model says shape {rshape} values {want.tolist()}",
                )
            self._retain(w, name, key, got, want)
        res.bump("probe:region_read")
        return None

    def _retain(self, w, name, key, got, want):
        """Keep a returned region object: what a read returned is a value, later writes must not change it."""
        kept = w.setdefault("kept", [])
        kept.append((name, list(key), got, np.array(want, copy=True)))
        if len(kept) > 4:
            kept.pop(0)

    def _check_kept(self, w, i, op):
        for name, key, got, want in w.get("kept", []):
            if name == "D":
                now = np.asarray(got.data)
            else:
                now, problem = densify(got.subs, got.vals, tuple(int(s) for s in got.shape))
                if problem is not None:
                    now = None
            if now is None or now.shape != want.shape or not np.array_equal(now, want):
                return self._viol("earlier_read_result_unchanged_by_later_write", op, i, f"the tensor returned by / assigned through {name}[{key}] earlier changed after a later write: now {None if now is None else now.tolist()}, was {want.tolist()}")
        return None

    # ---- writes
    def _write_effect(self, w, res, before_cells, before_shape):
        m = w["m"]
        if m.cells != before_cells or m.shape != before_shape:
            res.bump("writes_effective")
        if m.shape != before_shape:
            res.bump("probe:growth")
            if len(m.shape) != len(before_shape):
                res.bump("probe:order_growth")
            w["grown_at"] = True
        elif w.get("grown_at") and m.cells != before_cells:
            res.bump("probe:growth_then_overwrite")
        if self._perm_class(w):
            res.bump("probe:write_on_unsorted_storage")

    def _op_w_full(self, w, step, i, res):
        m = w["m"]
        key = dec(step["key"])
        v = step["val"]
        if len(key) < m.order or len(key) > MAX_ORDER:
            return "skip"
        if any(k < 0 and (d >= m.order or -k > m.shape[d]) for d, k in enumerate(key)):
            return "skip"
        if any(k >= self._maxext + 2 for k in key):
            return "skip"
        bc, bs = dict(m.cells), list(m.shape)
        newshape = m.region_target_shape(key)
        m.grow(newshape)
        m.set(m.norm(key), v)
        for name in ("D", "S"):
            def do(name=name):
                w[name][tuple(cast_int(step, k) for k in key)] = cast_scalar(step, v)
            self._call(do, f"{name}[{tuple(key)}] = {v}{self._forms(step)}", "w_full", i)
        if v == 0 and tuple(m.norm(key)) in bc:
            res.bump("probe:zero_write_removes_entry")
        self._write_effect(w, res, bc, bs)
        return None

    def _vals_list(self, vals, count):
        if isinstance(vals, list):
            return [float(v) for v in vals]
        return [float(vals)] * count

    def _op_w_subs(self, w, step, i, res):
        m = w["m"]
        subs = step["subs"]
        vals = step["vals"]
        if not subs:
            return "skip"
        ncol = len(subs[0])
        if ncol < m.order or ncol > MAX_ORDER or any(len(r) != ncol for r in subs):
            return "skip"
        if len({tuple(r) for r in subs}) != len(subs) or any(k < 0 or k >= self._maxext + 2 for r in subs for k in r):
            return "skip"
        if isinstance(vals, list) and len(vals) != len(subs):
            return "skip"
        vl = self._vals_list(vals, len(subs))
        bc, bs = dict(m.cells), list(m.shape)
        newshape = [max([(m.shape[d] if d < m.order else 0)] + [r[d] + 1 for r in subs]) for d in range(ncol)]
        m.grow(newshape)
        for r, v in zip(subs, vl):
            m.set(r, v)
        nz = sum(1 for v in vl if v != 0)
        if 0 < nz < len(vl):
            res.bump("probe:batch_mixes_zero_and_nonzero")
        arr = np.array(subs, dtype=int).reshape(len(subs), ncol)

        def do_d():
            v = list(vals) if isinstance(vals, list) else vals
            if isinstance(vals, list) and step.get("vform") == "column":
                v = np.array(vals, dtype=float).reshape(-1, 1)  # the form the sparse class asks for
            elif isinstance(vals, list) and step.get("vform") == "array":
                v = np.array(vals, dtype=float)
            w["D"][cast_arr(step, arr.copy())] = cast_scalar(step, v)

        def do_s():
            rhs = np.array(vals, dtype=float).reshape(-1, 1) if isinstance(vals, list) else cast_scalar(step, vals)
            w["S"][cast_arr(step, arr.copy())] = rhs

        self._call(do_d, f"D[subs {subs}] = {vals}{self._forms(step)}", "w_subs", i)
        self._call(do_s, f"S[subs {subs}] = {vals}{self._forms(step)}", "w_subs", i)
        self._write_effect(w, res, bc, bs)
        return None

    def _op_w_lin(self, w, step, i, res):
        m = w["m"]
        pos = self._lin_positions(m, dec(step["key"]))
        if pos is None or len(set(pos)) != len(pos):
            return "skip"
        vals = step["vals"]
        if isinstance(vals, list) and len(vals) != len(pos):
            return "skip"
        vl = self._vals_list(vals, len(pos))
        bc, bs = dict(m.cells), list(m.shape)
        for p, v in zip(pos, vl):
            m.set(p, v)
        key = self._lin_key(step)

        def do_d():
            w["D"][key] = (list(vals) if isinstance(vals, list) else vals)

        self._call(do_d, f"D[linear {dec(step['key'])!r}] = {vals}", "w_lin", i)
        # sparse tensors document linear assignment as unsupported: mirror by subscripts
        arr = np.array([list(p) for p in pos], dtype=int).reshape(len(pos), m.order)

        def do_s():
            rhs = np.array(vl, dtype=float).reshape(-1, 1) if isinstance(vals, list) else vals
            w["S"][cast_arr(step, arr)] = rhs

        self._call(do_s, f"S[subs {arr.tolist()}] = {vals} (mirror of linear write){self._forms(step)}", "w_lin", i)
        res.bump("probe:linear_write")
        self._write_effect(w, res, bc, bs)
        return None

    def _region_ok_for_write(self, m: Model, key, repeats: bool = False) -> bool:
        if len(key) < m.order or len(key) > MAX_ORDER:
            return False
        for d, k in enumerate(key):
            new = d >= m.order
            if isinstance(k, slice):
                if k.step is not None:
                    # strides only inside the present extent
                    if new or k.step == 0 or len(range(m.shape[d])[k]) == 0:
                        return False
                    if any(b is not None and not (0 <= b <= m.shape[d]) for b in (k.start, k.stop)):
                        return False
                    continue
                if (k.start is not None and k.start < 0) or (k.stop is not None and k.stop < 0):
                    # bounds counted from the end: only inside the present extent, selecting something
                    if new or any(b is not None and not (-m.shape[d] <= b <= m.shape[d]) for b in (k.start, k.stop)) or len(range(m.shape[d])[k]) == 0:
                        return False
                    continue
                if new and k.stop is None:
                    return False
                if k.stop is not None and k.stop > self._maxext + 2:
                    return False
            elif isinstance(k, list):
                if len(k) < 2 or (len(set(k)) != len(k) and not repeats) or any(j < 0 or j > self._maxext + 2 for j in k):
                    return False
            else:
                if k > self._maxext + 2:
                    return False
                if k < 0 and (new or -k > m.shape[d]):
                    return False
        return True

    @staticmethod
    def _akey(step, key):
        """The region key as handed to the library: index lists as python lists, or as numpy arrays."""
        if step.get("lists_as_arrays"):
            return tuple(cast_arr(step, np.array(k, dtype=int)) if isinstance(k, list) else cast_int(step, k) for k in key)
        return tuple(cast_int(step, k) for k in key)

    def _rhs_array(self, rhs):
        shape = tuple(rhs["shape"])
        return np.array(rhs["vals_f"], dtype=float).reshape(shape, order="F")

    def _op_w_region(self, w, step, i, res):
        m = w["m"]
        key = dec(step["key"])
        rhs = step["rhs"]
        if not self._region_ok_for_write(m, key, repeats=bool(step.get("repeats")) and rhs["kind"] == "scalar"):
            return "skip"
        newshape = m.region_target_shape(key)
        lists, kept = m.region_lists(key, newshape)
        if any(len(lst) == 0 for lst in lists):
            return "skip"
        if step.get("repeats"):
            res.bump("probe:scalar_region_write_with_a_repeated_index")
        rshape = tuple(len(lists[d]) for d in kept)
        if rhs["kind"] == "tensor":
            if tuple(rhs["shape"]) != rshape or not kept:
                return "skip"
            R = self._rhs_array(rhs)
        elif rhs["kind"] == "self":
            if rshape != tuple(m.shape) or len(kept) != m.order or len(key) != m.order or m.size() == 0 or list(newshape) != list(m.shape):
                return "skip"
            R = m.dense().astype(float)  # the values before the assignment
            res.bump("probe:region_write_from_itself")
        bc, bs = dict(m.cells), list(m.shape)
        m.grow(newshape)
        for idx in itertools.product(*[range(n) for n in rshape]):
            pos = [lists[d][0] for d in range(len(key))]
            for j, d in enumerate(kept):
                pos[d] = lists[d][idx[j]]
            m.set(pos, rhs["val"] if rhs["kind"] == "scalar" else R[idx])
        ttb = self.ttb
        if rhs["kind"] == "scalar":
            def do_d():
                w["D"][self._akey(step, key)] = cast_scalar(step, rhs["val"])

            def do_s():
                w["S"][self._akey(step, key)] = cast_scalar(step, rhs["val"])
        elif rhs["kind"] == "self":
            def do_d():
                w["D"][self._akey(step, key)] = w["D"]

            def do_s():
                w["S"][self._akey(step, key)] = w["S"]
        else:
            rhs_objs = {}

            def do_d():
                rhs_objs["D"] = ttb.tensor(np.asfortranarray(R.copy()))
                w["D"][self._akey(step, key)] = rhs_objs["D"]

            def do_s():
                nzs = np.argwhere(R != 0)
                if nzs.shape[0]:
                    val = ttb.sptensor(nzs, R[tuple(nzs.T)].reshape(-1, 1), rshape)
                else:
                    val = ttb.sptensor(shape=rshape)
                rhs_objs["S"] = val
                w["S"][self._akey(step, key)] = val

            res.bump("probe:region_write_tensor_rhs")
        if step.get("dense_via_subs"):
            allpos = [list(p) for p in itertools.product(*lists)]
            arr = np.array(allpos, dtype=int).reshape(len(allpos), len(key))
            vals = [m.get(p) for p in allpos]

            def do_d():  # noqa: F811
                w["D"][arr] = vals

            res.bump("probe:dense_mirrored_by_subscripts")
        self._call(do_d, f"D[region {key}] = {rhs}", "w_region", i)
        self._call(do_s, f"S[region {key}] = {rhs}", "w_region", i)
        if rhs["kind"] == "tensor" and not step.get("dense_via_subs"):
            # the right-hand side is a tensor in its own right: it must still read as before
            if "D" in rhs_objs and (tuple(rhs_objs["D"].shape) != rshape or not np.array_equal(rhs_objs["D"].data, R)):
                return self._viol("right_hand_side_unchanged_by_assignment", "w_region", i, f"the dense tensor assigned into D[{key}] changed")
            if "S" in rhs_objs:
                got, problem = densify(rhs_objs["S"].subs, rhs_objs["S"].vals, tuple(int(v) for v in rhs_objs["S"].shape))
                if problem is not None or got.shape != R.shape or not np.array_equal(got, R):
                    return self._viol("right_hand_side_unchanged_by_assignment", "w_region", i, f"the sparse tensor assigned into S[{key}] no longer reads as before: {problem or np.asarray(got).tolist()} vs {R.tolist()}")
            # ... and must stay so under later writes to the receiver (no storage kept in common)
            for nm in ("D", "S"):
                if nm in rhs_objs:
                    self._retain(w, nm, ["rhs of"] + list(key), rhs_objs[nm], R)
        self._write_effect(w, res, bc, bs)
        return None

    # ---- malformed requests (C19 facet): must raise and leave both tensors untouched
    def _bad(self, w, i, res, op, calls):
        res.bump("fault:" + op)
        for name, fn, what in calls:
            snap = self._snapshot(w)
            try:
                fn()
            except Exception:  # noqa: BLE001  -- rejected, as required
                diff = self._same_as(w, snap)
                if diff is not None:
                    if self.prop == "C19":
                        return self._viol("rejected_call_leaves_receiver_unchanged", op, i, f"{what} raised but {diff}", "C19")
                    # (C04: the state check that follows every step judges what the request did to the tensors)
                    res.bump("probe:malformed_partial_mutation")
                    continue
                res.bump("probe:malformed_rejected")
                continue
            if self.prop == "C19":
                return self._viol("malformed_request_is_rejected", op, i, f"{what} did not raise", "C19")
            res.bump("probe:malformed_accepted")
        return None

    def _op_bad_subs_count(self, w, step, i, res):
        m = w["m"]
        subs, vals = step["subs"], step["vals"]
        ncol = len(subs[0]) if subs else 0
        if ncol not in (m.order, m.order + 1) or ncol > MAX_ORDER:
            return "skip"
        if any(len(r) != ncol or any(not (0 <= r[d] <= m.shape[d]) for d in range(m.order)) or any(not (0 <= k <= 1) for k in r[m.order :]) for r in subs):
            return "skip"
        if len(vals) == len(subs) or len(vals) < 2 or len(subs) < 2:
            return "skip"
        arr = np.array(subs, dtype=int)
        if ncol > m.order:
            res.bump("probe:malformed_request_that_would_grow_the_order")

        def do_d():
            w["D"][arr.copy()] = list(vals)

        def do_s():
            w["S"][arr.copy()] = np.array(vals, dtype=float).reshape(-1, 1)

        return self._bad(w, i, res, "bad_subs_count", [("D", do_d, f"D[{len(subs)} subscripts] = {len(vals)} values"), ("S", do_s, f"S[{len(subs)} subscripts] = {len(vals)} values")])

    def _op_bad_subs_cols(self, w, step, i, res):
        m = w["m"]
        subs, vals = step["subs"], step["vals"]
        if m.order < 2 or len(subs) < 2 or any(len(r) != m.order - 1 for r in subs) or len(vals) != len(subs):
            return "skip"
        if any(not (0 <= r[d] < m.shape[d]) for r in subs for d in range(m.order - 1)):
            return "skip"
        arr = np.array(subs, dtype=int)

        def do_s():
            w["S"][arr.copy()] = np.array(vals, dtype=float).reshape(-1, 1)

        return self._bad(w, i, res, "bad_subs_cols", [("S", do_s, f"S[subscripts with {m.order - 1} columns] on an order-{m.order} tensor")])

    @staticmethod
    def _bad_lin_key(step):
        k = step["key"]
        form = step.get("form", "int")
        if form == "array":
            return np.array([0, k], dtype=int) if k >= 0 else np.array([k], dtype=int)
        if form == "list":
            return [0, k] if k >= 0 else [k]
        return k

    def _op_bad_lin_read_beyond(self, w, step, i, res):
        m = w["m"]
        n = m.size()
        if n == 0 or -n <= step["key"] < n:
            return "skip"
        calls = []
        for name in ("D", "S"):
            def do(name=name):
                return w[name][self._bad_lin_key(step)]

            calls.append((name, do, f"{name}[linear {step['key']}] with {n} elements"))
        return self._bad(w, i, res, "bad_lin_read_beyond", calls)

    def _op_bad_lin_beyond(self, w, step, i, res):
        m = w["m"]
        if step["key"] < m.size():
            return "skip"

        def do_d():
            key = self._bad_lin_key(step)
            w["D"][key] = step["val"] if not isinstance(key, (list, np.ndarray)) else [step["val"], step["val"] + 1.0]

        return self._bad(w, i, res, "bad_lin_beyond", [("D", do_d, f"D[linear {step['key']}] = v with {m.size()} elements")])

    def _op_bad_region_shape(self, w, step, i, res):
        m = w["m"]
        key = dec(step["key"])
        rhs = step["rhs"]
        if not self._region_ok_for_read(m, key):
            return "skip"
        lists, kept = m.region_lists(key)
        rshape = tuple(len(lists[d]) for d in kept)
        bad = tuple(rhs["shape"])
        if not kept or len(bad) != len(rshape) or bad == rshape:
            return "skip"
        if all(b == r or b == 1 for b, r in zip(bad, rshape)):
            return "skip"  # would broadcast: not a malformed request
        R = self._rhs_array(rhs)
        ttb = self.ttb

        def do_d():
            w["D"][tuple(key)] = ttb.tensor(np.asfortranarray(R.copy()))

        return self._bad(w, i, res, "bad_region_shape", [("D", do_d, f"D[region of shape {rshape}] = tensor of shape {bad}")])

    def _op_bad_region_shape_grow(self, w, step, i, res):
        m = w["m"]
        key = dec(step["key"])
        rhs = step["rhs"]
        if len(key) != m.order:
            return "skip"
        for d, k in enumerate(key):
            if isinstance(k, slice):
                if k.step is not None or k.start is None or k.stop is None or not (0 <= k.start < k.stop <= self._maxext + 2) or k.start > m.shape[d]:
                    return "skip"
            elif not (isinstance(k, int) and 0 <= k < m.shape[d]):
                return "skip"
        if not any(isinstance(k, slice) and k.stop > m.shape[d] for d, k in enumerate(key)):
            return "skip"
        newshape = m.region_target_shape(key)
        lists, kept = m.region_lists(key, newshape)
        rshape = tuple(len(lists[d]) for d in kept)
        bad = tuple(rhs["shape"])
        if not kept or len(bad) != len(rshape) or bad == rshape or any(b < r for b, r in zip(bad, rshape)):
            return "skip"
        if all(b == r or b == 1 for b, r in zip(bad, rshape)):
            return "skip"
        R = self._rhs_array(rhs)
        ttb = self.ttb
        form = step.get("form", "tensor")
        res.bump("probe:malformed_request_that_would_grow_the_receiver")
        if form == "sptensor":
            def do_s():
                nzs = np.argwhere(R != 0)
                w["S"][tuple(key)] = ttb.sptensor(nzs, R[tuple(nzs.T)].reshape(-1, 1), bad)

            return self._bad(w, i, res, "bad_region_shape_grow", [("S", do_s, f"S[growing region {key} of shape {rshape}] = sptensor of shape {bad}")])

        def do_d():
            w["D"][tuple(key)] = ttb.tensor(np.asfortranarray(R.copy())) if form == "tensor" else np.asfortranarray(R.copy())

        return self._bad(w, i, res, "bad_region_shape_grow", [("D", do_d, f"D[growing region {key} of shape {rshape}] = {form} of shape {bad}")])

    def _op_bad_sparse_neg_subs(self, w, step, i, res):
        m = w["m"]
        subs = step["subs"]
        if any(len(r) != m.order for r in subs) or not any(k < 0 for r in subs for k in r):
            return "skip"
        if any(not (-m.shape[d] <= r[d] < m.shape[d]) for r in subs for d in range(m.order)):
            return "skip"
        arr = np.array(subs, dtype=int)

        def do_s():
            w["S"][arr.copy()] = step["val"]

        return self._bad(w, i, res, "bad_sparse_neg_subs", [("S", do_s, "S[subscript array with a negative entry] = v")])

    # ------------------------------------------------------------ simplification
    def simplify(self, rec):
        """Yield simpler candidate records (argument-level shrinking)."""
        init = rec["init"]
        if init.get("huge"):
            for j in range(len(init["subs"])):
                c = dict(rec)
                ci = dict(init)
                ci["subs"] = init["subs"][:j] + init["subs"][j + 1 :]
                ci["vals"] = init["vals"][:j] + init["vals"][j + 1 :]
                c["init"] = ci
                yield c
            return
        # fewer initial nonzeros
        for j in range(len(init["subs"])):
            c = dict(rec)
            ci = dict(init)
            ci["subs"] = init["subs"][:j] + init["subs"][j + 1 :]
            ci["vals"] = init["vals"][:j] + init["vals"][j + 1 :]
            c["init"] = ci
            yield c
        # sorted initial storage
        order = sorted(range(len(init["subs"])), key=lambda k: init["subs"][k])
        if order != list(range(len(order))):
            c = dict(rec)
            ci = dict(init)
            ci["subs"] = [init["subs"][k] for k in order]
            ci["vals"] = [init["vals"][k] for k in order]
            c["init"] = ci
            yield c
        # fewer rows in subscript batches
        for si, step in enumerate(rec["steps"]):
            if step["op"] in ("w_subs", "r_subs") and len(step["subs"]) > 1:
                for j in range(len(step["subs"])):
                    s2 = dict(step)
                    s2["subs"] = step["subs"][:j] + step["subs"][j + 1 :]
                    if isinstance(step.get("vals"), list):
                        s2["vals"] = step["vals"][:j] + step["vals"][j + 1 :]
                    c = dict(rec)
                    c["steps"] = rec["steps"][:si] + [s2] + rec["steps"][si + 1 :]
                    yield c


class _Stop(Exception):
    def __init__(self, v):
        self.v = v
