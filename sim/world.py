"""The simulated world for the solver engines: clock, random stream, ARPACK start vector,
output sinks.  All seams are reached by rebinding module attributes; /repo is unmodified.
"""

from __future__ import annotations

import contextlib
import io
import logging
import sys
import warnings
from typing import Any, Dict, List, Optional

import numpy as np

from .kernel import H


class SimClock:
    """Scripted clock standing in for the ``time`` module of one pyttb module.

    ``script`` = {"t0": float, "tick": float, "events": [{"at": k, "dt": x}], "freeze_from": k|None}
    Read number k (0-based) returns t0 + k*tick + sum(dt of events with at <= k), except that
    from read ``freeze_from`` on the value no longer changes.
    Every read is recorded; nothing else of ``time`` is exposed, so a new use of the real
    clock inside the simulated modules fails loudly instead of leaking nondeterminism.
    """

    def __init__(self, script: Optional[Dict[str, Any]] = None):
        script = script or {}
        self.t0 = float(script.get("t0", 1000.0))
        self.tick = float(script.get("tick", 0.001))
        self.events = sorted(script.get("events", []), key=lambda e: e["at"])
        self.freeze_from = script.get("freeze_from")
        self.reads: List[float] = []
        self._frozen: Optional[float] = None

    def _next(self) -> float:
        k = len(self.reads)
        if self.freeze_from is not None and k >= self.freeze_from and self._frozen is not None:
            v = self._frozen
        else:
            v = self.t0 + k * self.tick + sum(e["dt"] for e in self.events if e["at"] <= k)
            self._frozen = v
        self.reads.append(v)
        return v

    def time(self) -> float:
        return self._next()

    def perf_counter(self) -> float:
        return self._next()

    def monotonic(self) -> float:
        return self._next()

    @property
    def n_reads(self) -> int:
        return len(self.reads)

    def span(self) -> float:
        return (max(self.reads) - min(self.reads)) if self.reads else 0.0


_CLOCK_MODULES = ("pyttb.cp_apr", "pyttb.gcp.optimizers", "pyttb.gcp_opt")


class World(contextlib.AbstractContextManager):
    """Installs the seams for the duration of one simulated run.

    * clock: ``SimClock`` bound as ``time`` in the three pyttb modules that read a clock
    * random stream: ``np.random.seed(np_seed)`` on entry (the SUT's own global stream)
    * ARPACK: ``scipy.sparse.linalg.eigsh/eigs`` get an explicit start vector derived from
      (arpack_seed, call index) -- scipy's hidden generator state is thereby switched off
    * stdout / logging / warnings: captured in memory; warning filters reset
    """

    def __init__(self, clock: Optional[SimClock] = None, np_seed: Optional[int] = None, arpack_seed: int = 0):
        self.clock = clock or SimClock()
        self.np_seed = np_seed
        self.arpack_seed = arpack_seed
        self.stdout = io.StringIO()
        self.log = io.StringIO()
        self.eig_calls = 0
        self.eig_gaps: List[Dict[str, Any]] = []
        self._saved: List[Any] = []

    # ------------------------------------------------------------------ seams
    def _record_spectrum(self, A, k):
        """Relative gap between the k-th and (k+1)-th largest |eigenvalue| (small dense matrices)."""
        try:
            M = A.toarray() if hasattr(A, "toarray") else np.asarray(A)
            if M.ndim != 2 or M.shape[0] != M.shape[1] or M.shape[0] > 64:
                return
            ev = np.sort(np.abs(np.linalg.eigvals(M)))[::-1]
            top = ev[0] if ev.size and ev[0] > 0 else 1.0
            if k is None:
                gaps = [(ev[j] - ev[j + 1]) / top for j in range(len(ev) - 1)]
                self.eig_gaps.append({"n": int(M.shape[0]), "k": None, "gaps": [float(x) for x in gaps]})
            elif 0 < k < len(ev):
                self.eig_gaps.append({"n": int(M.shape[0]), "k": int(k), "gaps": [float((ev[k - 1] - ev[k]) / top)]})
        except Exception:  # noqa: BLE001 -- diagnostics only
            pass

    def _wrap_eig(self, fn):
        world = self

        def wrapped(A, k=6, *args, **kwargs):
            if kwargs.get("v0") is None:
                n = A.shape[0]
                rs = np.random.RandomState(H(world.arpack_seed, "arpack", world.eig_calls) & 0xFFFFFFFF)
                kwargs["v0"] = rs.uniform(-1.0, 1.0, n)
            world.eig_calls += 1
            world._record_spectrum(A, k)
            return fn(A, k, *args, **kwargs)

        wrapped.__wrapped__ = fn
        return wrapped

    def _wrap_dense_eig(self, fn):
        world = self

        def wrapped(A, *args, **kwargs):
            world._record_spectrum(A, None)
            return fn(A, *args, **kwargs)

        wrapped.__wrapped__ = fn
        return wrapped

    def __enter__(self):
        import importlib

        import scipy.sparse.linalg as ssl

        for name in _CLOCK_MODULES:
            mod = importlib.import_module(name)
            self._saved.append((mod, "time", getattr(mod, "time")))
            setattr(mod, "time", self.clock)
        for attr in ("eigsh", "eigs"):
            orig = getattr(ssl, attr)
            self._saved.append((ssl, attr, orig))
            setattr(ssl, attr, self._wrap_eig(orig))
        import scipy.linalg as sl

        for attr in ("eigh", "eig"):
            orig = getattr(sl, attr)
            self._saved.append((sl, attr, orig))
            setattr(sl, attr, self._wrap_dense_eig(orig))
        self._old_stdout = sys.stdout
        sys.stdout = self.stdout
        self._handler = logging.StreamHandler(self.log)
        self._root = logging.getLogger()
        self._old_level = self._root.level
        self._old_handlers = list(self._root.handlers)
        self._root.handlers = [self._handler]
        self._warn_ctx = warnings.catch_warnings()
        self._warn_ctx.__enter__()
        warnings.simplefilter("ignore")
        if self.np_seed is not None:
            np.random.seed(self.np_seed)
        return self

    def __exit__(self, *exc):
        self._warn_ctx.__exit__(*exc)
        self._root.handlers = self._old_handlers
        self._root.setLevel(self._old_level)
        sys.stdout = self._old_stdout
        for obj, attr, val in reversed(self._saved):
            setattr(obj, attr, val)
        self._saved.clear()
        return False


def rng_state_digest() -> str:
    """Digest of the global numpy random state (to check what a call consumed)."""
    import hashlib

    st = np.random.get_state()
    h = hashlib.sha256()
    h.update(st[1].tobytes())
    h.update(str(st[2:]).encode())
    return h.hexdigest()[:16]
