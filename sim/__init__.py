"""Deterministic simulation harness for sandialabs/pyttb (see /verif/DESIGN.md)."""
