"""Catalogue of admissible operations for engine B (C05).  See catalog_b.py."""

from __future__ import annotations

import copy as _copy
import itertools
from typing import Any, Dict, List, Optional

import numpy as np

from .catalog_b import rand_array, rnd
from .kernel import dec, enc


def _perm(g, n, identity=False):
    p = list(range(n))
    if not identity:
        g.shuffle(p)
    return p


def _dims_subset(g, n, lo=1, hi=None):
    hi = n if hi is None else hi
    k = g.randint(lo, max(lo, hi))
    return sorted(g.sample(range(n), min(k, n)))


def register(cat):
    ttb = cat.ttb
    op = cat.op

    # ------------------------------------------------------------------ creators
    def run_new_tensor(eng, ops, st):
        data = np.asarray(dec(st["data"]), dtype=st.get("dtype", "float64"))
        data = np.asfortranarray(data) if st.get("order", "F") == "F" else np.ascontiguousarray(data)
        return ttb.tensor(data, copy=st.get("copy", True))

    op("new_tensor", None, lambda c, r: c.cat.step_new_tensor(c.g, c.g.choice(c.heap_families())), run_new_tensor, weight=0.6)

    def run_new_sptensor(eng, ops, st):
        shape = tuple(st["shape"])
        if not st["subs"]:
            return ttb.sptensor(shape=shape)
        subs = np.array(st["subs"], dtype=int).reshape(len(st["subs"]), len(shape))
        vals = np.array(st["vals"], dtype=st.get("dtype", "float64")).reshape(-1, 1)
        return ttb.sptensor(subs, vals, shape, copy=st.get("copy", True))

    op("new_sptensor", None, lambda c, r: c.cat.step_new_sptensor(c.g, c.g.choice(c.heap_families())), run_new_sptensor, weight=0.6)

    def run_new_ktensor(eng, ops, st):
        fs = [np.asfortranarray(np.asarray(dec(f), dtype=float)) for f in st["factors"]]
        return ttb.ktensor(fs, np.array(st["weights"], dtype=float), copy=st.get("copy", True))

    op("new_ktensor", None, lambda c, r: c.cat.step_new_ktensor(c.g, c.g.choice(c.heap_families()), c.g.randint(1, 2)), run_new_ktensor, weight=0.6)

    def run_new_ttensor(eng, ops, st):
        core = ttb.tensor(np.asfortranarray(np.asarray(dec(st["core"]), dtype=float)))
        fs = [np.asfortranarray(np.asarray(dec(f), dtype=float)) for f in st["factors"]]
        return ttb.ttensor(core, fs, copy=st.get("copy", True))

    op("new_ttensor", None, lambda c, r: c.cat.step_new_ttensor(c.g, c.g.choice(c.heap_families())), run_new_ttensor, weight=0.4)

    op("new_array", None, lambda c, r: None, lambda eng, ops, st: np.array(dec(st["data"])), weight=0.0)

    def run_new_coo(eng, ops, st):
        import scipy.sparse

        if st.get("triplets"):
            t = st["triplets"]
            return scipy.sparse.coo_matrix((np.array(t["data"], dtype=float), (np.array(t["row"], dtype=np.int32), np.array(t["col"], dtype=np.int32))), shape=tuple(t["shape"]))
        return scipy.sparse.coo_matrix(np.array(dec(st["data"])))

    op("new_coo", None, lambda c, r: None, run_new_coo, weight=0.0)

    # ------------------------------------------------- constructors from heap arrays
    def gen_tensor_ctor(c, r):
        shape = c.g.choice(c.heap_families())
        arr = rand_array(c.g, shape)
        arr = np.asfortranarray(arr) if c.g.random() < 0.6 else np.ascontiguousarray(arr)
        a = c.fresh(arr)
        return {"operands": [a], "copy": c.g.random() < 0.5, "with_shape": c.g.random() < 0.3}

    def run_tensor_ctor(eng, ops, st):
        if st.get("with_shape"):
            return ttb.tensor(ops[0], tuple(ops[0].shape), copy=st["copy"])
        return ttb.tensor(ops[0], copy=st["copy"])

    op("tensor_ctor", None, gen_tensor_ctor, run_tensor_ctor, allowed=lambda st: () if st["copy"] else (0,))

    def gen_sptensor_ctor(c, r):
        shape = c.g.choice(c.heap_families())
        size = int(np.prod(shape))
        nnz = c.g.randint(1, min(size, 4))
        lin = c.g.sample(range(size), nnz)
        subs = np.array([list(np.unravel_index(k, shape, order="F")) for k in lin], dtype=int)
        vals = np.array([rnd(c.g) for _ in lin], dtype=float).reshape(-1, 1)
        return {"operands": [c.fresh(subs), c.fresh(vals)], "shape": list(shape), "copy": c.g.random() < 0.5}

    op(
        "sptensor_ctor",
        None,
        gen_sptensor_ctor,
        lambda eng, ops, st: ttb.sptensor(ops[0], ops[1], tuple(st["shape"]), copy=st["copy"]),
        allowed=lambda st: () if st["copy"] else (0, 1),
    )

    def gen_ktensor_ctor(c, r):
        shape = c.g.choice(c.heap_families())
        rk = c.g.randint(1, 2)
        ids = [c.fresh(np.asfortranarray(rand_array(c.g, (s, rk)))) for s in shape]
        w = c.fresh(np.array([rnd(c.g, 0.5, 2.0) for _ in range(rk)]))
        return {"operands": ids + [w], "copy": c.g.random() < 0.5, "with_weights": c.g.random() < 0.7}

    def run_ktensor_ctor(eng, ops, st):
        fs = list(ops[:-1])
        if st["with_weights"]:
            return ttb.ktensor(fs, ops[-1], copy=st["copy"])
        return ttb.ktensor(fs, copy=st["copy"])

    op("ktensor_ctor", None, gen_ktensor_ctor, run_ktensor_ctor, allowed=lambda st: () if st["copy"] else tuple(range(8)))

    def gen_ttensor_ctor(c, r):
        core = c.pick("T")
        if core is None:
            return None
        cs = c.obj(core).shape
        ids = [c.fresh(np.asfortranarray(rand_array(c.g, (c.g.randint(2, 3), rk)))) for rk in cs]
        return {"operands": [core] + ids, "copy": c.g.random() < 0.5}

    op(
        "ttensor_ctor",
        None,
        gen_ttensor_ctor,
        lambda eng, ops, st: ttb.ttensor(ops[0], list(ops[1:]), copy=st["copy"]),
        allowed=lambda st: () if st["copy"] else tuple(range(8)),
    )

    def gen_sumtensor_ctor(c, r):
        first = c.pick(("T", "S", "K", "TT"))
        if first is None:
            return None
        shape = tuple(c.obj(first).shape)
        others = [i for i in c.heap.ids(("T", "S", "K", "TT"), lambda o: tuple(o.shape) == shape) if i != first]
        ids = [first] + (c.g.sample(others, min(len(others), c.g.randint(0, 2))) if others else [])
        return {"operands": ids, "copy": c.g.random() < 0.6}

    op(
        "sumtensor_ctor",
        None,
        gen_sumtensor_ctor,
        lambda eng, ops, st: ttb.sumtensor(list(ops), copy=st["copy"]),
        allowed=lambda st: () if st["copy"] else tuple(range(8)),
    )

    def gen_tenmat_ctor(c, r):
        shape = c.g.choice(c.heap_families())
        n = len(shape)
        rd = _dims_subset(c.g, n, 1, n - 1)
        if c.g.random() < 0.25:
            rd = list(range(n)) if c.g.random() < 0.5 else []
        cd = [d for d in range(n) if d not in rd]
        c.g.shuffle(cd)
        rows = int(np.prod([shape[d] for d in rd])) if rd else 1
        cols = int(np.prod([shape[d] for d in cd])) if cd else 1
        a = c.fresh(np.asfortranarray(rand_array(c.g, (rows, cols))))
        return {"operands": [a], "rdims": rd, "cdims": cd, "tshape": list(shape), "copy": c.g.random() < 0.5}

    op(
        "tenmat_ctor",
        None,
        gen_tenmat_ctor,
        lambda eng, ops, st: ttb.tenmat(ops[0], np.array(st["rdims"], dtype=int), np.array(st["cdims"], dtype=int), tuple(st["tshape"]), copy=st["copy"]),
        allowed=lambda st: () if st["copy"] else (0,),
    )

    # ------------------------------------------------------------ generic helpers
    def simple(name, recv, call, weight=1.0, **kw):
        op(name, recv, lambda c, r: {"operands": [r]}, lambda eng, ops, st: call(ops[0]), weight=weight, **kw)

    def binary(name, recv, other_kinds, call, weight=1.0, **kw):
        def gen(c, r):
            o = c.same_shape(other_kinds, c.obj(r).shape)
            if o is None:
                return None
            return {"operands": [r, o]}

        op(name, recv, gen, lambda eng, ops, st: call(ops[0], ops[1]), weight=weight, **kw)

    def with_scalar(name, recv, call, weight=0.5):
        op(name, recv, lambda c, r: {"operands": [r], "s": rnd(c.g, 0.5, 3.0)}, lambda eng, ops, st: call(ops[0], st["s"]), weight=weight)

    # --------------------------------------------------------------------- tensor
    simple("T.copy", "T", lambda t: t.copy())
    simple("T.deepcopy", "T", lambda t: _copy.deepcopy(t), weight=0.5)
    simple("T.full", "T", lambda t: t.full())
    simple("T.double", "T", lambda t: t.double())
    simple("T.find", "T", lambda t: list(t.find()))
    simple("T.to_sptensor", "T", lambda t: t.to_sptensor())
    simple("T.squeeze", "T", lambda t: t.squeeze(), weight=0.5)
    simple("T.exp", "T", lambda t: t.exp(), weight=0.5)
    simple("T.neg", "T", lambda t: -t, weight=0.5)
    simple("T.pos", "T", lambda t: +t)
    simple("T.norm", "T", lambda t: t.norm(), weight=0.2)
    simple("T.logical_not", "T", lambda t: t.logical_not(), weight=0.3)
    simple("T.collapse_all", "T", lambda t: t.collapse(), weight=0.2)
    simple("T.issymmetric", "T", lambda t: t.issymmetric(), weight=0.2)
    simple("T.tenfun_abs", "T", lambda t: t.tenfun(lambda x: np.abs(x) + 0.0), weight=0.4)

    def gen_T_permute(c, r):
        n = c.obj(r).ndims
        kind = c.g.choice(["identity", "general", "general", "array"])
        p = _perm(c.g, n, identity=(kind == "identity"))
        if kind == "array":
            return {"operands": [r, c.fresh(np.array(p, dtype=int))], "perm": None}
        return {"operands": [r], "perm": p}

    op("T.permute", "T", gen_T_permute, lambda eng, ops, st: ops[0].permute(np.array(st["perm"]) if st["perm"] is not None else ops[1]), weight=2.0)

    def gen_T_reshape(c, r):
        shape = tuple(c.obj(r).shape)
        size = int(np.prod(shape))
        opts = [shape, (size,), (1, size), (size, 1)]
        for a in range(2, size):
            if size % a == 0:
                opts.append((a, size // a))
        return {"operands": [r], "shape": list(c.g.choice(opts))}

    op("T.reshape", "T", gen_T_reshape, lambda eng, ops, st: ops[0].reshape(tuple(st["shape"])), weight=2.0)

    def gen_T_to_tenmat(c, r):
        n = c.obj(r).ndims
        rd = _dims_subset(c.g, n, 1, max(1, n - 1))
        if c.g.random() < 0.25:
            rd = list(range(n))  # every mode in the rows: a single-column matricization
        form = c.g.choice(["rdims", "rdims_cdims", "cdims", "cyclic"])
        if len(rd) == n:
            form = "rdims"
        st: Dict[str, Any] = {"operands": [r], "copy": c.g.random() < 0.5, "form": form, "rdims": rd}
        cd = [d for d in range(n) if d not in rd]
        c.g.shuffle(cd)
        st["cdims"] = cd
        if form == "cyclic":
            st["rdims"] = [c.g.randrange(n)]
            st["cyc"] = c.g.choice(["fc", "bc", "t"])
        return st

    def run_T_to_tenmat(eng, ops, st):
        t = ops[0]
        if st["form"] == "rdims":
            return t.to_tenmat(rdims=np.array(st["rdims"], dtype=int), copy=st["copy"])
        if st["form"] == "cdims":
            return t.to_tenmat(cdims=np.array(st["cdims"]), copy=st["copy"])
        if st["form"] == "cyclic":
            return t.to_tenmat(rdims=np.array(st["rdims"]), cdims_cyclic=st["cyc"], copy=st["copy"])
        return t.to_tenmat(rdims=np.array(st["rdims"]), cdims=np.array(st["cdims"]), copy=st["copy"])

    op("T.to_tenmat", "T", gen_T_to_tenmat, run_T_to_tenmat, allowed=lambda st: () if st["copy"] else (0,), weight=2.0)

    def gen_T_collapse(c, r):
        n = c.obj(r).ndims
        return {"operands": [r], "dims": _dims_subset(c.g, n, 1, max(1, n - 1))}

    op("T.collapse", "T", gen_T_collapse, lambda eng, ops, st: ops[0].collapse(np.array(st["dims"])), weight=0.5)

    def gen_T_contract(c, r):
        sh = c.obj(r).shape
        pairs = [(i, j) for i in range(len(sh)) for j in range(len(sh)) if i != j and sh[i] == sh[j]]
        if not pairs:
            return None
        i, j = c.g.choice(pairs)
        return {"operands": [r], "i": i, "j": j}

    op("T.contract", "T", gen_T_contract, lambda eng, ops, st: ops[0].contract(st["i"], st["j"]), weight=0.5)

    def gen_T_scale(c, r):
        sh = c.obj(r).shape
        d = c.g.randrange(len(sh))
        v = c.fresh(rand_array(c.g, (sh[d],)))
        return {"operands": [r, v], "dim": d}

    op("T.scale", "T", gen_T_scale, lambda eng, ops, st: ops[0].scale(ops[1], st["dim"]), weight=0.7)

    def gen_T_ttv(c, r):
        sh = c.obj(r).shape
        n = len(sh)
        form = c.g.choice(["single", "all", "dims", "exclude"])
        if form == "single":
            d = c.g.randrange(n)
            return {"operands": [r, c.fresh(rand_array(c.g, (sh[d],)))], "form": form, "dims": [d]}
        if form == "all":
            return {"operands": [r] + [c.fresh(rand_array(c.g, (s,))) for s in sh], "form": form, "dims": None}
        dims = _dims_subset(c.g, n, 1, n)
        if form == "dims":
            return {"operands": [r] + [c.fresh(rand_array(c.g, (sh[d],))) for d in dims], "form": form, "dims": dims}
        ex = [d for d in range(n) if d not in dims]
        return {"operands": [r] + [c.fresh(rand_array(c.g, (s,))) for s in sh], "form": form, "dims": ex}

    def run_ttv(eng, ops, st):
        t = ops[0]
        vs = list(ops[1:])
        if st["form"] == "single":
            return t.ttv(vs[0], st["dims"][0])
        if st["form"] == "all":
            return t.ttv(vs)
        if st["form"] == "dims":
            return t.ttv(vs, np.array(st["dims"]))
        return t.ttv(vs, exclude_dims=np.array(st["dims"])) if st["dims"] else t.ttv(vs)

    op("T.ttv", "T", gen_T_ttv, run_ttv, weight=1.5)

    def gen_ttm(c, r):
        sh = c.obj(r).shape
        n = len(sh)
        d = c.g.randrange(n)
        tr = c.g.random() < 0.4
        rows = c.g.randint(1, 3)
        m = rand_array(c.g, (sh[d], rows) if tr else (rows, sh[d]))
        return {"operands": [r, c.fresh(np.asfortranarray(m))], "dim": d, "transpose": tr}

    op("T.ttm", "T", gen_ttm, lambda eng, ops, st: ops[0].ttm(ops[1], st["dim"], transpose=st["transpose"]), weight=1.0)

    def gen_T_ttt(c, r):
        o = c.pick("T")
        if o is None:
            return None
        a, b = c.obj(r).shape, c.obj(o).shape
        pairs = [(i, j) for i in range(len(a)) for j in range(len(b)) if a[i] == b[j]]
        if not pairs or c.g.random() < 0.3:
            return {"operands": [r, o], "sd": None, "od": None}
        i, j = c.g.choice(pairs)
        return {"operands": [r, o], "sd": [i], "od": [j]}

    def run_T_ttt(eng, ops, st):
        if st["sd"] is None:
            return ops[0].ttt(ops[1])
        return ops[0].ttt(ops[1], np.array(st["sd"]), np.array(st["od"]))

    op("T.ttt", "T", gen_T_ttt, run_T_ttt, weight=0.6)

    def gen_T_ttsv(c, r):
        sh = c.obj(r).shape
        if len(set(sh)) != 1:
            return None
        return {"operands": [r, c.fresh(rand_array(c.g, (sh[0],)))], "skip": c.g.choice([None, 0, 1])}

    op("T.ttsv", "T", gen_T_ttsv, lambda eng, ops, st: ops[0].ttsv(ops[1], skip_dim=st["skip"]), weight=0.4)

    def gen_mttkrp(c, r):
        sh = c.obj(r).shape
        n = c.g.randrange(len(sh))
        k = c.pick("K", lambda o: tuple(o.shape) == tuple(sh))
        if k is not None and c.g.random() < 0.5:
            return {"operands": [r, k], "n": n, "as": "ktensor"}
        rk = c.g.randint(1, 2)
        return {"operands": [r] + [c.fresh(np.asfortranarray(rand_array(c.g, (s, rk)))) for s in sh], "n": n, "as": "list"}

    def run_mttkrp(eng, ops, st):
        if st["as"] == "ktensor":
            return ops[0].mttkrp(ops[1], st["n"])
        return ops[0].mttkrp(list(ops[1:]), st["n"])

    op("T.mttkrp", "T", gen_mttkrp, run_mttkrp, weight=1.0)
    op("T.mttkrps", "T", lambda c, r: (lambda s: {"operands": [r] + [c.fresh(np.asfortranarray(rand_array(c.g, (d, 2)))) for d in s]})(c.obj(r).shape), lambda eng, ops, st: ops[0].mttkrps(list(ops[1:])), weight=0.5)

    def gen_nvecs(c, r):
        sh = c.obj(r).shape
        n = c.g.randrange(len(sh))
        return {"operands": [r], "n": n, "r": c.g.randint(1, sh[n])}

    op("T.nvecs", "T", gen_nvecs, lambda eng, ops, st: ops[0].nvecs(st["n"], st["r"]), weight=0.4)

    binary("T.add", "T", "T", lambda a, b: a + b)
    binary("T.sub", "T", "T", lambda a, b: a - b, weight=0.5)
    binary("T.mul", "T", "T", lambda a, b: a * b, weight=0.5)
    binary("T.div", "T", "T", lambda a, b: a / b, weight=0.3)
    binary("T.eq", "T", "T", lambda a, b: a == b, weight=0.3)
    binary("T.lt", "T", "T", lambda a, b: a < b, weight=0.2)
    binary("T.logical_and", "T", "T", lambda a, b: a.logical_and(b), weight=0.3)
    binary("T.logical_or", "T", "T", lambda a, b: a.logical_or(b), weight=0.2)
    binary("T.logical_xor", "T", "T", lambda a, b: a.logical_xor(b), weight=0.2)
    binary("T.isequal", "T", ("T", "S"), lambda a, b: a.isequal(b), weight=0.3)
    binary("T.innerprod", "T", ("T", "S", "K", "TT"), lambda a, b: a.innerprod(b), weight=0.6)
    binary("T.mask", "T", "T", lambda a, b: a.mask(b), weight=0.4)
    binary("T.tenfun_binary", "T", "T", lambda a, b: a.tenfun(lambda x, y: x + y, b), weight=0.4)
    binary("T.add_sptensor", "T", "S", lambda a, b: a + b, weight=0.4)
    with_scalar("T.add_scalar", "T", lambda a, s: a + s)
    with_scalar("T.rmul_scalar", "T", lambda a, s: s * a)
    with_scalar("T.pow", "T", lambda a, s: a**2, weight=0.3)
    with_scalar("T.rtruediv", "T", lambda a, s: s / (a * a + 1.0), weight=0.2)
    simple("T.symmetrize", "T", lambda t: t.symmetrize() if len(set(t.shape)) == 1 else t.copy(), weight=0.3)

    # indexing: the index arrays are operands too
    def gen_T_getitem(c, r):
        t = c.obj(r)
        sh = t.shape
        size = int(np.prod(sh))
        form = c.g.choice(["linear_neg", "linear", "subs", "region"])
        if form in ("linear", "linear_neg"):
            k = c.g.randint(2, min(size, 4))
            idx = c.g.sample(range(size), k)
            if form == "linear_neg":
                idx[0] = idx[0] - size
            return {"operands": [r, c.fresh(np.array(idx, dtype=int))], "form": "linear"}
        if form == "subs":
            rows = [[c.g.randrange(s) for s in sh] for _ in range(c.g.randint(2, 3))]
            return {"operands": [r, c.fresh(np.array(rows, dtype=int))], "form": "subs"}
        key = []
        for s in sh:
            if c.g.random() < 0.5:
                key.append(enc(slice(None, None, None)))
            elif c.g.random() < 0.5 and s > 1:
                key.append(enc(slice(0, c.g.randint(1, s), None)))
            else:
                key.append(c.g.randrange(s))
        return {"operands": [r], "form": "region", "key": key}

    def run_getitem(eng, ops, st):
        if st["form"] == "region":
            return ops[0][tuple(dec(k) for k in st["key"])]
        return ops[0][ops[1]]

    op("T.getitem", "T", gen_T_getitem, run_getitem, weight=2.0)

    def gen_T_setitem(c, r):
        sh = c.obj(r).shape
        rows = [[c.g.randrange(s) for s in sh] for _ in range(2)]
        if rows[0] == rows[1]:
            return None
        return {"operands": [r, c.fresh(np.array(rows, dtype=int)), c.fresh(np.array([rnd(c.g), rnd(c.g)]))]}

    def run_setitem(eng, ops, st):
        ops[0][ops[1]] = ops[2]
        return ops[0]

    op("T.setitem", "T", gen_T_setitem, run_setitem, inplace=True, weight=0.7)

    def gen_T_setitem_linear(c, r):
        # linear indices in a caller-owned array, counted from the end where negative
        size = int(np.prod(c.obj(r).shape))
        if size < 3:
            return None
        ks = c.g.sample(range(size), 2)
        for j in range(2):
            if c.g.random() < 0.5:
                ks[j] -= size
        return {"operands": [r, c.fresh(np.array(ks, dtype=int)), c.fresh(np.array([rnd(c.g), rnd(c.g)]))]}

    op("T.setitem_linear", "T", gen_T_setitem_linear, run_setitem, inplace=True, weight=0.5)

    from . import catalog_b_ops2

    catalog_b_ops2.register(cat, simple, binary, with_scalar, _perm, _dims_subset, gen_ttm, run_ttv, gen_mttkrp, run_mttkrp, gen_nvecs, run_getitem, run_setitem)
