"""Engine C / C18 -- decomposition results do not depend on how the problem is presented.

One run = one algorithm + one sampled problem + a list of *relations*; each relation step
computes the base run and a variant inside the simulated world (own clock, seeded random
stream, ARPACK start vector, captured output) and compares the denoted tensors.

R1 same seed (same process, after unrelated calls, fresh interpreter)   -- simulation proper
R2 verbosity / printing (and: printing consumes no randomness)           -- simulation proper
R3 clock (tick, skew, backward jump, freeze; deadline never reached)     -- simulation proper
R4 returned initial guess passed back under another seed                 -- simulation proper
R5 dense vs sparse holder of the data                                    -- metamorphic
R6 positive scaling of the data (CP-ALS, HOSVD, Tucker-ALS)              -- metamorphic
R7 consistent relabelling of modes (CP-ALS, HOSVD, Tucker-ALS)           -- metamorphic
"""

from __future__ import annotations

import itertools
import json
import os
import subprocess
import sys
from typing import Any, Dict, List, Optional

import numpy as np

from .kernel import RunResult, Streams, Violation, arr_digest, dec, enc, weighted
from .world import SimClock, World, rng_state_digest

ALGS = ["cp_als", "cp_apr_mu", "cp_apr_pdnr", "cp_apr_pqnr", "hosvd", "tucker_als", "gcp_lbfgsb"]
RELS = {
    "cp_als": ["R1", "R1p", "R1s", "R2", "R4", "R5", "R6", "R7", "R1h"],
    "cp_apr_mu": ["R1", "R1p", "R1s", "R2", "R2d", "R3", "R4", "R5", "R1h"],
    "cp_apr_pdnr": ["R1", "R1p", "R1s", "R2", "R2d", "R3", "R4", "R5", "R1h"],
    "cp_apr_pqnr": ["R1", "R1s", "R2", "R2d", "R3", "R4", "R5", "R1h"],
    "hosvd": ["R1p", "R1s", "R2", "R6", "R7", "R1h"],
    "tucker_als": ["R1", "R1p", "R1s", "R2", "R4", "R5", "R6", "R7", "R1h"],
    "gcp_lbfgsb": ["R1", "R1p", "R1s", "R1g", "R1o", "R2", "R3", "R4", "R7", "R1h"],
}
# R1/R1p/R2/R3 vary only what the simulator owns (seed, call history, output sink, clock): the arithmetic of
# the run is the same, so the results must be bit-identical (0.0). A print-only branch that touches the
# running model shows up as a last-bit difference long before it shows up at any rounding tolerance.
# "Same model up to rounding" (the property's words). The relations that vary only what the simulator owns (R1*, R2*, R3)
# were first compared for bit identity; a thorough-tier run (root seed 702, run 12582, Tucker-ALS on a 2x4 matrix) then
# showed two *identical* calls in one process differing by 4.9e-16 -- and not on every repetition: numpy/BLAS kernels
# take different paths depending on the alignment of freshly allocated buffers. Bit identity is therefore counted
# (probe:bitwise_equal) but not demanded: differences up to ROUNDING pass, anything larger must be explained by the
# conditioning of the problem (two-sided guard below) or is a violation.
ROUNDING = 1e-12
TOL = {"R1": ROUNDING, "R1p": ROUNDING, "R1s": ROUNDING, "R1g": ROUNDING, "R1f": ROUNDING, "R2": ROUNDING, "R2d": ROUNDING, "R3": ROUNDING, "R1o": ROUNDING, "R1d": ROUNDING, "R1h": 1e-8, "R4": 1e-12, "R5": 1e-8, "R6": 1e-8, "R7": 1e-8}
FIT_TOL = 1e-6
PQNR_KNOWN_MSG = "ERROR: L-BFGS first iterate is bad"


def x_of(xenc) -> np.ndarray:
    """The data array of a problem: stored cell by cell, or (large problems) regenerated from its recipe."""
    if isinstance(xenc, dict) and "__recipe__" in xenc:
        r = xenc["__recipe__"]
        rs = np.random.RandomState(r["seed"] & 0x7FFFFFFF)
        x = np.round(rs.uniform(r["lo"], r["hi"], tuple(r["shape"])), 6)
        x[rs.uniform(0.0, 1.0, tuple(r["shape"])) < r["zero_frac"]] = 0.0
        if r.get("pert") is not None:
            x = x * (1.0 + 1e-13 * np.random.RandomState(r["pert"] & 0xFFFF).uniform(-1.0, 1.0, x.shape))
        return x
    return np.asarray(dec(xenc), dtype=float)


def x_perturbed(init):
    """The same data perturbed in the 13th digit (for the conditioning guard), in the stored form."""
    xenc = init["x"]
    if isinstance(xenc, dict) and "__recipe__" in xenc:
        return {"__recipe__": dict(xenc["__recipe__"], pert=init["np_seed"])}
    x = np.asarray(dec(xenc), dtype=float)
    noise = np.random.RandomState(init["np_seed"] & 0xFFFF).uniform(-1.0, 1.0, x.shape)
    return enc(x * (1.0 + 1e-13 * noise))


class Skip(Exception):
    pass


class EngineC18:
    name = "solver-world/presentation"

    def __init__(self, prop: str, steer: List[str]):
        import pyttb as ttb

        self.ttb = ttb
        self.prop = prop
        self.steer = set(steer)

    # ------------------------------------------------------------- generation
    def run(self, run_seed: int, tier: str) -> RunResult:
        st = Streams(run_seed)
        sw = st.get("swarm")
        g = st.get("gen")
        res = RunResult()
        if sw.random() < 0.007:
            return self._run_big(st, sw, g, res)
        alg = weighted(sw, [("cp_als", 4), ("cp_apr_mu", 2), ("cp_apr_pdnr", 3), ("cp_apr_pqnr", 1), ("hosvd", 2), ("tucker_als", 3), ("gcp_lbfgsb", 3)])
        N = weighted(sw, [(2, 1), (3, 5), (4, 1)]) if alg != "gcp_lbfgsb" else weighted(sw, [(2, 2), (3, 3), (4, 3)])
        shape = [sw.randint(2, 4) for _ in range(N)]
        if N == 4 and sw.random() < 0.6:
            # lopsided: one mode clearly longer than the others (where the work is split then depends on the labelling)
            shape = [sw.randint(2, 3) for _ in range(N)]
            shape[sw.choice([0, 0, 3, 3, 1, 2])] = sw.randint(6, 10)
        if N >= 3 and sw.random() < 0.12:
            # a mode of size one (mostly the first one): kernels that special-case "nothing to the left / right"
            shape[sw.choice([0, 0, 0, N - 1, 1])] = 1
            if N == 4 and sw.random() < 0.5:
                shape = [1, sw.randint(3, 5), sw.randint(3, 4), sw.randint(2, 3)]
        size = int(np.prod(shape))
        apr = alg.startswith("cp_apr")
        x = np.zeros(shape)
        zero_frac = sw.choice([0.0, 0.2, 0.5])
        for idx in itertools.product(*[range(s) for s in shape]):
            if g.random() >= zero_frac:
                x[idx] = round(g.uniform(0.2, 3.0), 6) if (apr or alg == "gcp_lbfgsb") else round(g.uniform(-2.0, 2.0), 6)
        if sw.random() < 0.15 and max(shape) >= 2:
            # a mode in which at least half of the slices are empty (the sparse code paths then see short results)
            d = sw.choice([n for n in range(N) if shape[n] >= 2])
            for j in sw.sample(range(shape[d]), (shape[d] + 1) // 2):
                sl = [slice(None)] * N
                sl[d] = j
                x[tuple(sl)] = 0.0
        int_dtype = "int64"
        if apr and sw.random() < 0.35:
            # genuine count data, held in integer storage (dense array / sparse values of dtype int64)
            x = np.ceil(x * 2.0)
            init_int = True
        elif alg in ("cp_als", "tucker_als") and sw.random() < 0.08:
            # whole-number data held in a narrow integer type (sums of squares leave the range of that type)
            int_dtype = sw.choice(["uint16", "int16", "int32", "uint8"])
            top = {"uint16": 300, "int16": 200, "int32": 60000, "uint8": 200}[int_dtype]
            x = np.where(x != 0, np.ceil(np.abs(x) * top / 2.0), 0.0)
            init_int = True
        else:
            init_int = False
        loss = None
        if alg == "gcp_lbfgsb":
            loss = sw.choice(["GAUSSIAN", "POISSON", "GAMMA", "RAYLEIGH"])
            if loss == "POISSON":
                x = np.ceil(x)
            elif loss in ("GAMMA", "RAYLEIGH"):
                x[x == 0] = 0.6125
        if np.count_nonzero(x) < 2:
            x[tuple(0 for _ in shape)] = 1.25
            x[tuple(s - 1 for s in shape)] = 0.75
            if init_int:
                x = np.ceil(x)  # (data held in integer storage must be whole numbers, or the storage truncates them)
        # admissible ranks are counted on the slices that actually carry data: an all-zero slice adds nothing to the
        # rank of the data, and a model with more components than the data can have is not identifiable (thorough
        # tier, seed 702 run 11378: rank-3 CP-ALS on a 3x3 matrix with a zero column; one component collapses to
        # exactly zero or to 1e-16 depending on rounding, and CP-ALS then divides by its norm)
        eff = [max(1, int(np.count_nonzero(np.abs(np.moveaxis(x, n, 0)).reshape(shape[n], -1).sum(axis=1)))) for n in range(N)]
        init: Dict[str, Any] = {"alg": alg, "shape": shape, "x": enc(x), "np_seed": st.u32("np"), "arpack_seed": st.u32("arpack"), "int_storage": init_int, "int_dtype": int_dtype}
        if alg in ("hosvd", "tucker_als"):
            # admissible (non-degenerate) multilinear ranks: r_n <= min(size_n, prod_{m != n} r_m)
            for _ in range(50):
                ranks = [g.randint(1, e) for e in eff]
                if all(ranks[n] <= int(np.prod([ranks[m] for m in range(N) if m != n])) for n in range(N)):
                    break
            else:
                ranks = [1] * N
            init["ranks"] = ranks
            if alg == "hosvd":
                init["tol"] = sw.choice([0.1, 0.3, 0.5])
                init["use_ranks"] = sw.random() < 0.5
                init["sequential"] = sw.random() < 0.7
            else:
                init["maxiters"] = sw.randint(1, 4)
                init["init_kind"] = weighted(sw, [("random", 3), ("nvecs", 2), ("explicit", 3)])
        else:
            maxrank = min(int(np.prod([eff[m] for m in range(N) if m != n])) for n in range(N))
            live = [e for e in eff if e > 1]
            if len(live) <= 2 and live:
                # Data that are, in effect, a matrix (all but two modes carry a single non-empty slice): a CP model with as
                # many components as the matrix has rows or columns fits exactly and is far from unique, and which of
                # the exact fits ALS walks to is decided in the last bits (thorough tier, root seed 851, run 7852: rank 3
                # on 3x3x(1 non-empty slice), dense vs sparse 1.026e-8 against a tolerance of 1e-8, self-sensitivity
                # just below the guard). Same family as the 2x3 / rank-2 case of section 11: generation, not the oracle.
                maxrank = max(1, min(maxrank, min(live) - 1))
            init["rank"] = g.randint(1, min(3, maxrank))
            if alg == "cp_als":
                init["maxiters"] = sw.randint(1, 5)
                init["init_kind"] = weighted(sw, [("random", 3), ("nvecs", 2), ("explicit", 3)])
                if init["init_kind"] == "nvecs":
                    init["rank"] = min(init["rank"], min(shape))  # nvecs delivers at most size_n vectors
                init["fixsigns"] = sw.random() < 0.8
            elif apr:
                init["maxiters"] = sw.randint(1, 4)
                init["maxinneriters"] = sw.choice([1, 3, 10])
                init["init_kind"] = weighted(sw, [("random", 3), ("explicit", 4)])
                init["opts"] = {}
                if alg != "cp_apr_mu":
                    init["opts"]["precompinds"] = sw.choice([True, False])
                if alg == "cp_apr_pdnr":
                    init["opts"]["inexact"] = sw.choice([True, False])
            else:
                init["maxiter"] = sw.randint(2, 6)
                init["loss"] = loss
                init["init_kind"] = weighted(sw, [("random", 3), ("explicit", 3)])
                init["guess_form"] = sw.choice(["ktensor", "ktensor", "list", "tuple"])  # how an explicit guess is handed over
        if init.get("int_dtype", "int64") != "int64" and init.get("init_kind") == "nvecs":
            # (leading-vector starts on narrow-integer data overflow in Xn @ Xn.T already on the unchanged tree -- a
            # defect outside this relation, see DESIGN section 9; such data get a random start here)
            init["init_kind"] = "random"
        if init.get("init_kind") == "explicit":
            rk = init.get("ranks") or [init["rank"]] * N
            lo = 0.05 if (apr or alg == "gcp_lbfgsb") else -1.0
            fmats = [np.array([[round(g.uniform(lo, 1.0), 6) for _ in range(rk[n])] for _ in range(shape[n])]) for n in range(N)]
            if apr and sw.random() < 0.3:
                d = sw.randrange(N)
                fmats[d][sw.randrange(shape[d]), :] = 0.0  # an all-zero row: the model is zero on a whole slice
            init["factors"] = [enc(f) for f in fmats]
        # a convergence tolerance that can actually stop the run: used by the bit-identity relations only (the
        # tolerance-based relations keep stoptol=0 so that iteration counts cannot differ by rounding)
        init["stoptol"] = sw.choice([0.0, 0.0, 1e-4, 1e-2, 0.1]) if alg in ("cp_als", "tucker_als") or apr else 0.0
        init["dimorder"] = None
        if alg in ("cp_als", "hosvd", "tucker_als") and sw.random() < 0.4:
            d = list(range(N))
            g.shuffle(d)
            init["dimorder"] = d
        # how a mode order is handed over (python list / tuple / numpy array)
        init["dimorder_form"] = sw.choice(["list", "list", "tuple", "ndarray", "ndarray"])
        res.init = init
        rels = list(RELS[alg])
        if init.get("init_kind") != "random":
            rels = [r for r in rels if r not in ("R4",)]
        if alg == "gcp_lbfgsb" and init.get("init_kind") != "explicit":
            rels = [r for r in rels if r not in ("R7", "R1g")]
        if alg == "hosvd" or init.get("init_kind") == "explicit":
            rels = [r for r in rels if r != "R1"] + (["R1"] if alg != "hosvd" else [])
        if init.get("dimorder") is not None:
            rels.append("R1d")
        g.shuffle(rels)
        n_rel = sw.randint(2, 5)
        steps = []
        for rel in rels[:n_rel]:
            steps.append(self._gen_rel(rel, init, g))
        if tier == "thorough" and sw.random() < 0.02 or (tier == "quick" and sw.random() < 0.004):
            steps.append({"op": "R1f"})
        for step in steps:
            res.steps.append(step)
            if not self._exec(init, step, len(res.steps) - 1, res):
                break
        res.nontrivial = res.stats.get("pairs_compared", 0) >= 2
        return res

    def _run_big(self, st, sw, g, res: RunResult) -> RunResult:
        """A problem with more than 2**16 stored entries (block-wise sparse kernels), regenerated from a recipe."""
        alg = sw.choice(["cp_als", "cp_als", "cp_apr_mu"])
        shape = sw.choice([[42, 42, 42], [90, 30, 28], [16, 17, 18, 16], [270, 260]])
        apr = alg == "cp_apr_mu"
        recipe = {"shape": shape, "seed": sw.randrange(2**31), "zero_frac": sw.choice([0.02, 0.05]), "lo": 0.2 if apr else -2.0, "hi": 3.0 if apr else 2.0}
        N = len(shape)
        init: Dict[str, Any] = {"alg": alg, "shape": shape, "x": {"__recipe__": recipe}, "np_seed": st.u32("np"), "arpack_seed": st.u32("arpack"), "int_storage": False, "big": True}
        init["rank"] = sw.randint(1, 3)
        init["maxiters"] = sw.randint(1, 2)
        init["init_kind"] = "explicit"
        if alg == "cp_als":
            init["fixsigns"] = True
        else:
            init["maxinneriters"] = sw.choice([1, 3])
            init["opts"] = {}
        lo = 0.05 if apr else -1.0
        init["factors"] = [enc(np.array([[round(g.uniform(lo, 1.0), 6) for _ in range(init["rank"])] for _ in range(shape[n])])) for n in range(N)]
        init["stoptol"] = 0.0
        init["dimorder"] = None
        res.init = init
        for step in [self._gen_rel("R5", init, g), self._gen_rel("R2", init, g)]:
            res.steps.append(step)
            if not self._exec(init, step, len(res.steps) - 1, res):
                break
        res.bump("probe:problem_with_more_than_65536_entries")
        res.nontrivial = res.stats.get("pairs_compared", 0) >= 2
        return res

    def _gen_rel(self, rel, init, g) -> Dict[str, Any]:
        N = len(init["shape"])
        if rel == "R1":
            return {"op": "R1"}
        if rel == "R1s":
            # no random start is involved (explicit guess / HOSVD): the result must not depend on the global seed at all
            return {"op": "R1s", "other_seed": g.randrange(2**31)}
        if rel == "R1g":
            # the same explicit guess handed over in another form (Kruskal tensor / list / tuple of the factor matrices)
            return {"op": "R1g", "form": g.choice([f for f in ("ktensor", "list", "tuple") if f != init.get("guess_form", "ktensor")])}
        if rel == "R1d":
            # the same mode order handed over in another form
            return {"op": "R1d", "form": g.choice([f for f in ("list", "tuple", "ndarray") if f != init.get("dimorder_form", "list")])}
        if rel == "R1o":
            # the optimizer object has a history: it solved another, larger problem before
            return {"op": "R1o", "other_seed": g.randrange(2**31), "grow": g.choice([1, 2, 3])}
        if rel == "R1h":
            # the data object has a history: it was solved before while holding other content, then edited in place
            return {"op": "R1h", "sparse": g.random() < 0.7, "perm_seed": g.randrange(1000), "pick": g.randrange(1000)}
        if rel == "R1p":
            return {"op": "R1p", "prelude": g.choice(["eigs", "ops", "both"])}
        if rel == "R2":
            return {
                "op": "R2",
                "printitn": g.choice([0, 1, 2, 5, 1000]),
                "printinneritn": g.choice([0, 1, 2]),
                "verbosity": g.choice([-1, 0, 1, 3, 6]),
                "base_printitn": g.choice([0, 1]),
            }
        if rel == "R2d":
            # verbosity while the elapsed-time limit fires: the deadline must cut the run at the same
            # iteration whatever is printed
            return {"op": "R2d", "at": g.randint(1, 3), "printitn": g.choice([1, 2, 5]), "printinneritn": g.choice([0, 1]), "base_printitn": g.choice([0, 0, 1])}
        if rel == "R3":
            kind = g.choice(["tick", "skew", "backward", "freeze"])
            return {"op": "R3", "kind": kind, "at": g.randint(1, 4), "tick": g.choice([1e-6, 0.5, 30.0])}
        if rel == "R4":
            return {"op": "R4", "other_seed": g.randrange(2**31)}
        if rel == "R5":
            return {"op": "R5", "perm_seed": g.randrange(1000)}
        if rel == "R6":
            return {"op": "R6", "scale": g.choice([0.5, 2.0, 3.0, 10.0, 0.1, 7.25, 1e-3, 1e-6, 1e-9, 1e4, 1e8])}
        if rel == "R7":
            p = list(range(N))
            for _ in range(10):
                g.shuffle(p)
                if p != list(range(N)):
                    break
            return {"op": "R7", "perm": p}
        raise KeyError(rel)

    def replay(self, rec) -> RunResult:
        res = RunResult()
        res.init = rec["init"]
        for i, step in enumerate(rec["steps"]):
            res.steps.append(step)
            if not self._exec(rec["init"], step, i, res):
                break
        res.nontrivial = res.stats.get("pairs_compared", 0) >= 2
        return res

    # ------------------------------------------------------------------ calls
    def _call(self, init, variant: Dict[str, Any]) -> Dict[str, Any]:
        """Run the algorithm once in a fresh world under ``variant``; returns dict(full, fit, ...)."""
        ttb = self.ttb
        alg = init["alg"]
        x = x_of(init["x"])
        scale = variant.get("scale", 1.0)
        perm = variant.get("perm")
        N = x.ndim
        xv = x * scale
        if perm is not None:
            xv = np.transpose(xv, perm)
        if init.get("int_storage") and scale == 1.0:
            xv = xv.astype(init.get("int_dtype", "int64"))
        edits = []
        x_final = xv
        if variant.get("history") == "edited_object":
            nzp = np.argwhere(xv != 0)
            zp = np.argwhere(xv == 0)
            if nzp.shape[0] >= 2 and zp.shape[0] >= 1:
                p0 = tuple(int(v) for v in nzp[variant.get("pick", 0) % nzp.shape[0]])
                q0 = tuple(int(v) for v in zp[(variant.get("pick", 0) // 7) % zp.shape[0]])
                xv = xv.copy()
                xv[q0] = x_final[p0]
                xv[p0] = 0
                edits = [(q0, 0), (p0, x_final[p0].item())]
        if variant.get("sparse"):
            subs = np.argwhere(xv != 0)
            order = np.random.RandomState(variant.get("perm_seed", 0)).permutation(subs.shape[0])
            subs = subs[order]
            data = ttb.sptensor(subs, xv[tuple(subs.T)].reshape(-1, 1), tuple(xv.shape))
        else:
            data = ttb.tensor(np.asfortranarray(xv.copy()))
        # initial guess (always given in the base labelling; relabelled here together with the data)
        kind = init.get("init_kind")
        guess: Any = None
        if variant.get("guess") is not None:
            guess = list(variant["guess"])
        elif kind == "explicit":
            guess = [np.asarray(dec(f), dtype=float) for f in init["factors"]]
        elif kind in ("random", "nvecs"):
            guess = kind
        if isinstance(guess, list) and perm is not None:
            guess = [guess[p] for p in perm]
        dimorder = init.get("dimorder")
        if perm is not None and dimorder is None:
            dimorder = list(range(N))
        if perm is not None:
            inv = {old: new for new, old in enumerate(perm)}
            dimorder = [inv[d] for d in dimorder]
        if dimorder is not None:
            dform = variant.get("dimorder_form") or init.get("dimorder_form", "list")
            if dform == "tuple":
                dimorder = tuple(dimorder)
            elif dform == "ndarray":
                dimorder = np.array(dimorder, dtype=int)
        printitn = variant.get("printitn", 0)
        stoptol = float(init.get("stoptol", 0.0)) if variant.get("use_stoptol") else 0.0
        if stoptol > 0.0 and "maxiters" in init:
            init = dict(init)
            init["maxiters"] = init["maxiters"] + 4  # room for the convergence test to be what ends the run
        clock = SimClock(variant.get("clock") or {"tick": 1e-3})
        out: Dict[str, Any] = {}
        with World(clock=clock, np_seed=variant.get("np_seed", init["np_seed"]), arpack_seed=init["arpack_seed"]) as w:
            prelude = variant.get("prelude")
            if prelude:
                self._prelude(prelude, data)
                np.random.seed(variant.get("np_seed", init["np_seed"]))
                w.eig_calls = 0  # the start-vector index is a harness artefact, not history of the SUT
                w.eig_gaps.clear()
            def run_alg(data, out):
                if alg == "cp_als":
                    g0 = ttb.ktensor([f.copy() for f in guess]) if isinstance(guess, list) else guess
                    M, Minit, info = ttb.cp_als(data, init["rank"], stoptol=stoptol, maxiters=init["maxiters"], dimorder=dimorder, init=g0, printitn=printitn, fixsigns=init["fixsigns"])
                    out.update(full=M.full().data.copy(), fit=float(info["fit"]), iters=int(info["iters"]), guess_out=[f.copy() for f in Minit.factor_matrices], guess_w=Minit.weights.copy())
                elif alg.startswith("cp_apr"):
                    g0 = ttb.ktensor([f.copy() for f in guess]) if isinstance(guess, list) else guess
                    M, Minit, info = ttb.cp_apr(
                        data,
                        init["rank"],
                        algorithm=alg.split("_")[-1],
                        stoptol=stoptol,
                        stoptime=variant.get("stoptime", 1e6),
                        maxiters=init["maxiters"],
                        maxinneriters=init["maxinneriters"],
                        init=g0,
                        printitn=printitn,
                        printinneritn=variant.get("printinneritn", 0),
                        **init["opts"],
                    )
                    out.update(full=M.full().data.copy(), fit=float(info["obj"]), iters=len(np.asarray(info["kktViolations"]).reshape(-1)), guess_out=[f.copy() for f in Minit.factor_matrices], guess_w=Minit.weights.copy())
                elif alg == "hosvd":
                    kw: Dict[str, Any] = {}
                    if init["use_ranks"]:
                        rk = list(init["ranks"])
                        if perm is not None:
                            rk = [rk[p] for p in perm]
                        kw["ranks"] = np.array(rk)
                    T = ttb.hosvd(data, init["tol"], verbosity=variant.get("verbosity", 0), dimorder=dimorder, sequential=init["sequential"], **kw)
                    full = T.full().data.copy()
                    nx = np.linalg.norm(xv)
                    out.update(full=full, fit=float(1 - np.linalg.norm(full - xv) / nx), iters=0, core_shape=tuple(T.core.shape))
                elif alg == "tucker_als":
                    rk = list(init["ranks"])
                    if perm is not None:
                        rk = [rk[p] for p in perm]
                    g0 = [None if f is None else f.copy() for f in guess] if isinstance(guess, list) else guess
                    T, Uinit, info = ttb.tucker_als(data, rk, stoptol=stoptol, maxiters=init["maxiters"], dimorder=dimorder, init=g0, printitn=printitn)
                    out.update(full=T.full().data.copy(), fit=float(info["fit"]), iters=int(info["iters"]), guess_out=[None if u is None else np.array(u, copy=True) for u in Uinit])
                else:
                    from pyttb.gcp.handles import Objectives
                    from pyttb.gcp.optimizers import LBFGSB

                    opt = LBFGSB(maxiter=init["maxiter"], iprint=-1)
                    hist = variant.get("optimizer_history")
                    if hist:
                        rs_h = np.random.RandomState(hist["seed"] & 0x7FFFFFFF)
                        big = rs_h.uniform(0.3, 3.0, tuple(int(v) + hist["grow"] for v in data.shape))
                        if init["loss"] == "POISSON":
                            big = np.ceil(big)
                        g_h = ttb.ktensor([rs_h.uniform(0.1, 1.0, (big.shape[n], init["rank"])) for n in range(big.ndim)])
                        ttb.gcp_opt(ttb.tensor(np.asfortranarray(big)), init["rank"], getattr(Objectives, init["loss"]), opt, init=g_h, printitn=0)
                        np.random.seed(variant.get("np_seed", init["np_seed"]))
                    g0 = ttb.ktensor([f.copy() for f in guess]) if isinstance(guess, list) else guess
                    form = variant.get("guess_form") or init.get("guess_form", "ktensor")
                    if isinstance(guess, list) and form != "ktensor":
                        g0 = [f.copy() for f in guess] if form == "list" else tuple(f.copy() for f in guess)
                    M, M0, info = ttb.gcp_opt(data, init["rank"], getattr(Objectives, init["loss"]), opt, init=g0, printitn=printitn)
                    out.update(full=M.full().data.copy(), fit=float(info["final_f"]), iters=int(info["nit"]), guess_out=[f.copy() for f in M0.factor_matrices], guess_w=M0.weights.copy())

            if variant.get("history") == "edited_object" and edits:
                # the same data *object* was solved before, holding other content, and then edited in place
                run_alg(data, {})
                for pos, val in edits:
                    data[tuple(pos)] = val
                xv = x_final
                np.random.seed(variant.get("np_seed", init["np_seed"]))
                w.eig_calls = 0
                w.eig_gaps.clear()
            run_alg(data, out)
            out["rng_after"] = rng_state_digest()
            out["eig_gaps"] = list(w.eig_gaps)
        out["stdout_len"] = len(w.stdout.getvalue()) + len(w.log.getvalue())
        out["clock_reads"] = clock.n_reads
        if perm is not None:
            # bring the result back to the base labelling
            inv = [0] * N
            for new, old in enumerate(perm):
                inv[old] = new
            out["full"] = np.transpose(out["full"], inv)
        out["scale"] = scale
        return out

    def _prelude(self, kind, data):
        """Unrelated pyttb calls that consume no randomness (eigen-solves included)."""
        ttb = self.ttb
        t = ttb.tensor(np.arange(24, dtype=float).reshape((2, 3, 4), order="F") + 1.0)
        if kind in ("eigs", "both"):
            t.nvecs(2, 1)
            t.nvecs(1, 3)
            t.to_sptensor().nvecs(2, 2)
        if kind in ("ops", "both"):
            (t + t).norm()
            t.permute(np.array([2, 0, 1])).to_sptensor().full()
            ttb.ktensor([np.ones((2, 2)), np.ones((3, 2))]).full()

    # --------------------------------------------------------------- compare
    @staticmethod
    def _rel(a: np.ndarray, b: np.ndarray) -> float:
        den = max(float(np.linalg.norm(a)), float(np.linalg.norm(b)), 1e-300)
        d = float(np.linalg.norm(a - b))
        if np.isnan(d):
            return 0.0 if np.array_equal(np.isnan(a), np.isnan(b)) and np.allclose(np.nan_to_num(a), np.nan_to_num(b), rtol=0, atol=0) else float("inf")
        return d / den

    @staticmethod
    def _min_gap(*outs) -> float:
        m = 1.0
        for o in outs:
            for rec in o.get("eig_gaps", []):
                if rec["k"] is not None:
                    m = min([m] + rec["gaps"])
                else:
                    # dense eigen-solve: the cut is not known to the seam -> be conservative
                    m = min([m] + rec["gaps"])
        return m

    def _exec(self, init, step, i, res: RunResult) -> bool:
        op = step["op"]
        alg = init["alg"]
        res.bump("steps")
        res.bump("op:" + op)
        V = lambda oracle, detail: Violation("C18", oracle, f"{op}:{alg}", i, detail)  # noqa: E731
        if op not in RELS[alg] and op != "R1f":
            res.bump("skipped")
            return True
        try:
            v = self._relation(init, step, op, alg, V, res)
        except Skip as s:
            res.bump("skipped")
            res.bump("probe:skip_" + str(s))
            res.events.append([i, op, "skip", str(s)])
            return True
        except AssertionError as e:
            if str(e) == PQNR_KNOWN_MSG:
                res.bump("probe:pqnr_first_iterate_abort")
                res.events.append([i, op, "known_abort"])
                return False
            v = V("algorithm_returns", f"raised AssertionError: {e}")
        except Exception as e:  # noqa: BLE001
            v = V("algorithm_returns", f"raised {type(e).__name__}: {e}")
        if v is not None:
            res.violation = v
            res.events.append([i, op, "violation", v.oracle])
            return False
        res.states.add(hash((alg, op, len(init["shape"]), init.get("init_kind"), bool(init.get("dimorder")))) & 0xFFFFFFFF)
        return True

    def _relation(self, init, step, op, alg, V, res) -> Optional[Violation]:
        base_v: Dict[str, Any] = {}
        var: Dict[str, Any] = {}
        tol = TOL[op]
        if op == "R4" and alg == "gcp_lbfgsb":
            # gcp_opt re-normalises a guess that is passed back; normalising a normalised model is not
            # idempotent in the last bits, and L-BFGS-B amplifies that to ~1e-12 (observed)
            tol = 1e-8
        check_fit = True
        scale = 1.0
        if op == "R1":
            pass
        elif op == "R1g":
            if init.get("init_kind") != "explicit":
                raise Skip("no_explicit_guess")
            var = {"guess_form": step["form"]}
        elif op == "R1d":
            if init.get("dimorder") is None:
                raise Skip("no_mode_order_given")
            var = {"dimorder_form": step["form"]}
        elif op == "R1o":
            var = {"optimizer_history": {"seed": step["other_seed"], "grow": step["grow"]}}
            # long enough for the solver's own stopping tests (whose defaults may depend on the problem) to end the run
            init = dict(init)
            init["maxiter"] = 40
            res.bump("fault:optimizer_object_used_before")
        elif op == "R1h":
            if alg == "gcp_lbfgsb" and step["sparse"]:
                raise Skip("gcp_lbfgsb_takes_dense_data")
            rep = {"sparse": True, "perm_seed": step["perm_seed"]} if step["sparse"] else {}
            base_v = dict(rep)
            var = dict(rep, history="edited_object", pick=step["pick"])
            if not step["sparse"]:
                tol = ROUNDING  # dense storage: the edited object holds exactly the same array
            if step["sparse"] and alg in ("cp_apr_pdnr", "cp_apr_pqnr"):
                # entries stored in another order are summed in another order: same restrictions as for R5 below
                if init.get("init_kind") == "explicit" and any((np.asarray(dec(f)).sum(axis=1) == 0).any() for f in init["factors"]):
                    raise Skip("zero_row_guess_ties_active_set_threshold")
                init = dict(init)
                init["maxiters"] = 1
                init["maxinneriters"] = 1
            res.bump("fault:data_object_edited_between_solves")
        elif op == "R1p":
            var = {"prelude": step["prelude"]}
        elif op == "R1s":
            if init["alg"] != "hosvd" and init.get("init_kind") != "explicit":
                raise Skip("start_is_random_or_computed")
            var = {"np_seed": step["other_seed"]}
        elif op == "R1f":
            return self._fresh_interpreter(init, V, res)
        elif op == "R2":
            base_v = {"printitn": step["base_printitn"], "verbosity": 1 if step["base_printitn"] else 0}
            var = {"printitn": step["printitn"], "printinneritn": step["printinneritn"], "verbosity": step["verbosity"]}
        elif op == "R2d":
            script = {"tick": 1e-3, "events": [{"at": step["at"], "dt": 1e4}]}
            base_v = {"printitn": step["base_printitn"], "clock": script, "stoptime": 100.0}
            var = {"printitn": step["printitn"], "printinneritn": step["printinneritn"], "clock": script, "stoptime": 100.0}
            res.bump("fault:deadline_fires_under_both_verbosities")
        elif op == "R3":
            k = step["kind"]
            if k == "tick":
                var = {"clock": {"tick": step["tick"]}}
            elif k == "skew":
                var = {"clock": {"t0": 4.0e9, "tick": 1e-3}}
            elif k == "backward":
                var = {"clock": {"tick": 1e-3, "events": [{"at": step["at"], "dt": -86400.0}]}}
            else:
                var = {"clock": {"tick": 1e-3, "freeze_from": step["at"]}}
            res.bump("fault:clock_" + k)
        elif op == "R4":
            if init.get("init_kind") != "random":
                raise Skip("not_random_init")
        elif op == "R5":
            var = {"sparse": True, "perm_seed": step["perm_seed"]}
            if alg in ("cp_apr_pdnr", "cp_apr_pqnr") and init.get("init_kind") == "explicit":
                # PDNR/PQNR replace an all-zero row of the guess by 1e-8, which is exactly their active-set threshold
                # epsActive: the very first active-set decision is then a tie that last-bit differences between the
                # dense and the sparse arithmetic break either way (soak seed 501: 10 % and 32 % apart after one
                # inner iteration). Such guesses stay in for the bit-identity relations, not for dense-vs-sparse.
                if any((np.asarray(dec(f)).sum(axis=1) == 0).any() for f in init["factors"]):
                    raise Skip("zero_row_guess_ties_active_set_threshold")
            if alg in ("cp_apr_pdnr", "cp_apr_pqnr"):
                # The Newton variants take discrete decisions (active sets, line-search acceptance); once
                # margins shrink near convergence a last-bit difference between the dense and the sparse
                # arithmetic legitimately flips one and the iterates part company (observed: identical to
                # 1e-16 for two outer iterations, 8.6e-4 apart after the third). Representation
                # independence is therefore compared on the first outer iteration with one inner step,
                # where every decision has an O(1) margin.
                # (as built, after a thorough-tier false alarm: already the *second* inner iteration can flip --
                # PQNR's L-BFGS update tests quantities for exact zero -- 1.3e-2 apart with 2 inner iterations,
                # 1e-15 with 1 or 3; the relation is therefore compared after exactly one inner iteration.)
                init = dict(init)
                init["maxiters"] = 1
                init["maxinneriters"] = 1
        elif op == "R6":
            if init.get("init_kind") in ("random", "nvecs") and alg != "hosvd":
                # scale relation needs the same explicit start: take the one the base run reports
                pass
            var = {"scale": step["scale"]}
            scale = step["scale"]
        elif op == "R7":
            if len(step["perm"]) != len(init["shape"]) or sorted(step["perm"]) != list(range(len(init["shape"]))):
                raise Skip("perm_mismatch")
            if alg == "gcp_lbfgsb" and init.get("init_kind") != "explicit":
                # gcp_opt re-normalises a guess that is passed back (not idempotent in the last bits, see R4)
                raise Skip("gcp_relabelling_needs_explicit_guess")
            var = {"perm": step["perm"]}
        if op in ("R1", "R1p", "R1s", "R2", "R3") and init.get("stoptol"):
            base_v = dict(base_v, use_stoptol=True)
            var = dict(var, use_stoptol=True)
            res.bump("probe:convergence_test_active")
        if op == "R7" and alg == "gcp_lbfgsb":
            # L-BFGS-B's line search takes discrete decisions; the relabelled problem is the same problem with its
            # variables listed in another order, which agrees to rounding only while few such decisions were taken
            init = dict(init)
            init["maxiter"] = min(init["maxiter"], 2)
            tol = 1e-6
        try:
            base = self._call(init, base_v)
        except AssertionError as e:
            if str(e) == PQNR_KNOWN_MSG:
                raise
            raise Skip("base_run_raises")
        except Exception:  # noqa: BLE001 -- a problem the algorithm cannot solve at all is not a C18 matter
            raise Skip("base_run_raises")
        res.bump("solves")
        if not np.all(np.isfinite(base["full"])):
            raise Skip("base_result_not_finite")
        if op in ("R5", "R6", "R7") and alg != "hosvd" and init.get("init_kind") in ("random", "nvecs"):
            # both runs must start from the same guess: the one the base run reports having used
            var["guess"] = base["guess_out"]
        if op == "R4":
            var = {"np_seed": step["other_seed"], "guess": base["guess_out"]}
        try:
            other = self._call(init, var)
        except np.linalg.LinAlgError:
            # borderline-singular normal equations: which side of "exactly singular" a run lands on is rounding
            raise Skip("variant_singular_system")
        res.bump("solves")
        if op == "R4" and alg == "gcp_lbfgsb":
            # gcp_opt re-normalises a guess that is passed back, which is not idempotent in the last bits, and
            # L-BFGS-B's line search takes discrete decisions: the final models may legitimately part company
            # (observed 1.7e-2). What R4 states -- the returned guess is the start that was used, whatever the
            # seed -- is therefore compared on the guess the second run reports.
            ga = np.concatenate([np.asarray(f).reshape(-1) for f in base["guess_out"]])
            gb = np.concatenate([np.asarray(f).reshape(-1) for f in other["guess_out"]])
            dg = self._rel(ga, gb)
            res.bump("pairs_compared")
            if not (dg <= 1e-12):
                return V("same_model", f"returned initial guess passed back under another seed is not the guess used: relative difference {dg:.3e}")
            return None
        a = base["full"] * scale
        b = other["full"]
        d = self._rel(a, b)
        res.bump("pairs_compared")
        if d == 0.0:
            res.bump("probe:bitwise_equal")
        elif np.isfinite(d):
            res.bump(f"probe:diff_{op}_1e{int(np.floor(np.log10(d))):+03d}")
        if not (d <= tol):
            if op in ("R5", "R6", "R7") and self._min_gap(base, other) < 1e-6:
                raise Skip("eigen_gap_below_1e-6")
            if True:
                # conditioning guard: how far does the base run itself move when its data are perturbed in the
                # 13th digit? A variant whose arithmetic differs in the last bits cannot be expected to agree
                # better than that (observed: full-rank 2x3 matrix, rank-2 CP-ALS, 1.9e-8 after one sweep).
                init_p = dict(init)
                init_p["x"] = x_perturbed(init)
                pv = dict(base_v)
                if "guess" in var and op != "R4":
                    pv["guess"] = base["guess_out"]
                try:
                    pert = self._call(init_p, pv)
                    d_self = self._rel(base["full"], pert["full"])
                except Exception:  # noqa: BLE001
                    d_self = float("inf")
                if d <= 100.0 * d_self and op != "R4":
                    # an ill-conditioned problem is ill-conditioned under either representation / labelling / scale:
                    # the variant run must be just as sensitive, or the sensitivity belongs to one code path only
                    try:
                        pert_v = self._call(init_p, var)
                        d_self = min(d_self, self._rel(other["full"], pert_v["full"]))
                    except Exception:  # noqa: BLE001
                        pass
                if d <= 100.0 * d_self:
                    raise Skip("ill_conditioned_problem")
            return V("same_model", f"relative difference {d:.3e} > {tol:g} between base and variant {step}")
        if op in ("R1", "R1p", "R1s", "R1g", "R1d", "R1o", "R3", "R4") and base["iters"] != other["iters"]:
            return V("same_iteration_count", f"{base['iters']} vs {other['iters']} iterations")
        if op == "R2d" and base["iters"] != other["iters"]:
            return V("same_iteration_count", f"deadline cut after {base['iters']} vs {other['iters']} iterations under other verbosity")
        if op == "R2":
            if base["iters"] != other["iters"]:
                return V("same_iteration_count", f"{base['iters']} vs {other['iters']} iterations under other verbosity")
            if base["rng_after"] != other["rng_after"]:
                return V("printing_consumes_no_randomness", "global random state after the run differs between verbosity settings")
            if other["stdout_len"] > 0:
                res.bump("probe:variant_printed")
        if op in ("R1", "R1p") and base["rng_after"] != other["rng_after"]:
            return V("same_seed_same_stream_use", "global random state after the run differs between two runs with the same seed")
        if op == "R6" and alg in ("cp_als", "tucker_als") and not init.get("big"):
            # The stopping rule under scaling: with a convergence tolerance in force (and room to converge) the scaled
            # problem must stop after the same number of sweeps. Rounding can move a borderline stop by one sweep,
            # never by two (the fit change would have to sit within 1e-14 of the tolerance twice in a row).
            init_s = dict(init, stoptol=float(init.get("stoptol") or 0.0) or 1e-4, maxiters=30)
            try:
                b2 = self._call(init_s, dict(base_v, use_stoptol=True))
                o2 = self._call(init_s, dict(var, use_stoptol=True))
            except Exception:  # noqa: BLE001 -- singular systems etc. are judged by the main comparison above
                b2 = o2 = None
            if b2 is not None:
                res.bump("pairs_compared")
                if abs(b2["iters"] - o2["iters"]) > 1:
                    return V("same_iteration_count", f"with stoptol={init_s['stoptol']:g} the run stops after {b2['iters']} sweeps, on the data scaled by {step['scale']:g} after {o2['iters']}")
                if b2["iters"] < 34:
                    res.bump("probe:scaled_run_stopped_by_its_convergence_test")
        if op in ("R2", "R2d") and alg == "cp_als":
            # Under another verbosity the property speaks of the model (compared above, to rounding). CP-ALS reports the
            # fit of the last sweep when it is silent and re-evaluates it by another formula when it prints; for models
            # whose components nearly cancel the two evaluations of ||X||^2 + ||M||^2 - 2<X,M> differ far above rounding
            # although the models are identical (thorough tier, root seed 851, run 41241: 0.847869 vs 0.847823 on
            # identical models; earlier: section 11). Demanding equal reported fits here asks more than C18 states.
            check_fit = False
        if check_fit and alg in ("cp_als", "tucker_als", "hosvd"):
            fa, fb = base["fit"], other["fit"]
            # the reported fit is 1 - sqrt(|cancelled quantity|)/||X||: for near-exact fits compare the
            # squared residuals, which is what is actually computed
            # (1e-6 on the squared relative residual: the two runs may evaluate it by different formulas -- CP-ALS
            # recomputes the final fit only when it prints -- and for models whose components cancel the evaluation
            # error is eps * ||components||^2 / ||X||^2, observed 2.8e-8 for rank 3 on rank-1 data)
            close = abs(fa - fb) <= FIT_TOL or abs((1 - fa) ** 2 - (1 - fb) ** 2) <= 1e-6
            if not close and not (np.isnan(fa) and np.isnan(fb)):
                return V("same_fit", f"fit {fa!r} vs {fb!r}")
        return None

    def _fresh_interpreter(self, init, V, res) -> Optional[Violation]:
        """R1 across interpreters: same seed in a fresh process under another PYTHONHASHSEED."""
        try:
            base = self._call(init, {})
        except AssertionError as e:
            if str(e) == PQNR_KNOWN_MSG:
                raise
            raise Skip("base_run_raises")
        except Exception:  # noqa: BLE001
            raise Skip("base_run_raises")
        env = dict(os.environ)
        env["PYTHONHASHSEED"] = "12345"
        code = (
            "import sys, json; sys.path.insert(0, %r); sys.path.insert(0, %r)\n"
            "from sim import driver; driver.import_sut()\n"
            "from sim.engine_c18 import EngineC18\n"
            "from sim.kernel import arr_digest, enc\n"
            "init = json.loads(sys.stdin.read())\n"
            "o = EngineC18('C18', [])._call(init, {})\n"
            "import numpy as np\n"
            "print('DIGEST', arr_digest(o['full']), o['iters'], json.dumps(enc(o['full'])))\n"
        ) % (os.path.dirname(os.path.dirname(os.path.abspath(__file__))), os.environ.get("VERIF_REPO", "/repo"))
        p = subprocess.run([sys.executable, "-c", code], input=json.dumps(init), capture_output=True, text=True, env=env, timeout=120)
        res.bump("probe:fresh_interpreter_run")
        line = [ln for ln in p.stdout.splitlines() if ln.startswith("DIGEST ")]
        if not line:
            return V("fresh_interpreter_same_result", f"fresh interpreter failed: {p.stderr[-400:]}")
        dg, iters, payload = line[0].split(None, 3)[1:4]
        res.bump("pairs_compared")
        if dg == arr_digest(base["full"]) and int(iters) == base["iters"]:
            res.bump("probe:bitwise_equal")
            return None
        other_full = np.asarray(dec(json.loads(payload)), dtype=float)
        d = self._rel(base["full"], other_full) if other_full.shape == base["full"].shape else float("inf")
        if d <= ROUNDING and int(iters) == base["iters"]:
            res.bump("probe:rounding_level_difference")
            return None
        # larger than rounding: only the conditioning of the problem can excuse it (same guard as in _relation)
        init_p = dict(init)
        init_p["x"] = x_perturbed(init)
        try:
            d_self = self._rel(base["full"], self._call(init_p, {})["full"])
        except Exception:  # noqa: BLE001
            d_self = float("inf")
        if d <= 100.0 * d_self:
            raise Skip("ill_conditioned_problem")
        return V("fresh_interpreter_same_result", f"relative difference {d:.3e} / iters {iters} in a fresh interpreter vs iters {base['iters']}")
