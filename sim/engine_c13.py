"""Engine C / C13 -- GCP samplers and solvers in the simulated world.

Three kinds of run (chosen per run by the swarm stream):

* ``samplers``  -- seed search over the sampling functions and ``GCPSampler`` on dense,
  sparse, nearly-full and nearly-empty data, with requests from 0 to more than the supply.
* ``stochastic`` -- a history of 2-5 solves (some aborted by an injected collaborator fault)
  on ONE SGD/Adam/Adagrad object; per solve the best-model / bound / trace contract, and a
  differential check against a freshly constructed optimizer under the same random stream.
* ``lbfgsb`` -- the same for one ``LBFGSB`` object (objective never above the start).

The random stream is seeded per solve, the clock is a ``SimClock`` whose script differs
between the paired runs (it must influence nothing but the time trace), the sampler is a
recording / faulting proxy.
"""

from __future__ import annotations

import itertools
from typing import Any, Dict, List, Optional

import numpy as np

from .kernel import RunResult, Streams, Violation, arr_digest, dec, enc, weighted
from .world import SimClock, World

LOSSES = {
    # name: (needs, additional parameter, lower bound is finite)
    "GAUSSIAN": ("real", None),
    "BERNOULLI_ODDS": ("binary", None),
    "BERNOULLI_LOGIT": ("binary", None),
    "POISSON": ("count", None),
    "POISSON_LOG": ("count", None),
    "RAYLEIGH": ("positive", None),
    "GAMMA": ("positive", None),
    "HUBER": ("real", 0.25),
    "NEGATIVE_BINOMIAL": ("poscount", 3),
    "BETA": ("positive", 0.5),
}


class InjectedFault(Exception):
    """Raised by a faulting collaborator (sampler / loss callable / callback)."""


class EngineC13:
    name = "solver-world/gcp"

    def __init__(self, prop: str, steer: List[str]):
        import pyttb as ttb
        from pyttb.gcp import samplers
        from pyttb.gcp.fg_setup import setup
        from pyttb.gcp.handles import Objectives
        from pyttb.gcp.optimizers import LBFGSB, SGD, Adagrad, Adam

        self.ttb = ttb
        self.samplers = samplers
        self.setup = setup
        self.Objectives = Objectives
        self.opt_classes = {"SGD": SGD, "Adam": Adam, "Adagrad": Adagrad, "LBFGSB": LBFGSB}
        self.prop = prop
        self.steer = set(steer)
        self._shortfalls = 0
        self._tolerate: set = set()

    # ------------------------------------------------------------ generation
    def _gen_data(self, g, need: str, sparse: bool, fill: Optional[str] = None):
        N = weighted(g, [(2, 3), (3, 5), (4, 1)])
        shape = [g.randint(2, 4) for _ in range(N)]
        size = int(np.prod(shape))
        x = np.zeros(shape)
        if sparse:
            fill = fill or weighted(g, [("random", 4), ("nearly_full", 3), ("nearly_empty", 2), ("full", 1)])
            if fill == "nearly_full":
                nz = size - g.randint(1, 2)
            elif fill == "nearly_empty":
                nz = g.randint(1, 2)
            elif fill == "full":
                nz = size
            else:
                nz = g.randint(1, size - 1)
        else:
            fill = "dense"
            nz = size if need in ("positive", "poscount") else max(1, int(size * g.choice([0.3, 0.6, 1.0])))
        pos = list(itertools.product(*[range(s) for s in shape]))
        g.shuffle(pos)
        for p in pos[:nz]:
            if need == "binary":
                x[p] = 1.0
            elif need in ("count", "poscount"):
                x[p] = float(g.choice([1, 1, 2, 3, 5]))
            elif need == "positive":
                x[p] = round(g.uniform(0.1, 3.0), 3)
            else:
                x[p] = round(g.uniform(-2.0, 2.0), 3) or 0.5
        return x, fill

    def _gen_factors(self, g, shape, rank, nonneg: bool):
        fs = []
        for s in shape:
            lo = 0.05 if nonneg else -1.0
            fs.append(np.array([[round(g.uniform(lo, 1.0), 3) for _ in range(rank)] for _ in range(s)]))
        return fs

    def run(self, run_seed: int, tier: str) -> RunResult:
        st = Streams(run_seed)
        sw = st.get("swarm")
        g = st.get("gen")
        res = RunResult()
        kind = weighted(sw, [("samplers", 3), ("stochastic", 5), ("lbfgsb", 2)])
        res.init = {"kind": kind}
        steps: List[Dict[str, Any]] = []
        if kind == "samplers":
            for _ in range(sw.randint(1, 2)):
                sparse = sw.random() < 0.75
                x, fill = self._gen_data(g, g.choice(["count", "real"]), sparse)
                for k in range(sw.randint(3, 8)):
                    steps.append(self._gen_sample_step(g, x, sparse, fill, st.u32("np", len(steps))))
                if sparse and 0 < int(np.count_nonzero(x)) < x.size:
                    stp = self._gen_sample_step(g, x, sparse, fill, st.u32("np", len(steps)))
                    stp["op"] = "sample_edit"
                    stp["pick"] = g.randrange(10**6)
                    stp["osr"] = 40.0 if "stratified_zero_shortfall" in self.steer else 1.1
                    steps.append(stp)
        elif kind == "stochastic":
            opt = weighted(sw, [("SGD", 3), ("Adam", 4), ("Adagrad", 3)])
            res.init["optimizer"] = {
                "class": opt,
                "rate": sw.choice([1e-3, 1e-2, 0.1, 1.0, 10.0]),
                "decay": sw.choice([0.1, 0.5]),
                "max_fails": sw.choice([0, 1, 2]),
                "epoch_iters": sw.randint(1, 5),
                "max_iters": sw.randint(1, 6),
                "f_est_tol": sw.choice([None, None, None, 0.5, 5.0, 50.0, 500.0]),
                "printitn": sw.choice([0, 1, 2]),
            }
            n_solves = sw.randint(2, 5)
            same_size = sw.random() < 0.5
            base = None
            for k in range(n_solves):
                stp = self._gen_solve_step(g, sw, st.u32("np", k), stochastic=True, like=base if same_size else None)
                if base is None:
                    base = stp
                steps.append(stp)
        else:
            res.init["optimizer"] = {
                "class": "LBFGSB",
                "maxiter": sw.choice([2, 3, 5, 10]),
                "m": sw.choice([None, 3]),
                "user_callback": sw.random() < 0.3,
                "factr": sw.choice([1e7, 1e10]),
                "maxls": sw.choice([None, None, 1, 2, 3, 20]),
                "maxfun": sw.choice([None, None, 3, 8]),
            }
            n_solves = sw.randint(2, 4)
            same_size = sw.random() < 0.5
            base = None
            for k in range(n_solves):
                stp = self._gen_solve_step(g, sw, st.u32("np", k), stochastic=False, like=base if same_size else None)
                if base is None:
                    base = stp
                steps.append(stp)
        world = self._start(res.init)
        for step in steps:
            res.steps.append(step)
            if not self._exec(world, step, len(res.steps) - 1, res):
                break
        return self._finish(res)

    def _gen_sample_step(self, g, x, sparse, fill, np_seed):
        size = x.size
        nnz = int(np.count_nonzero(x))
        nzeros = size - nnz
        if not sparse:
            fn = weighted(g, [("uniform", 3), ("gcpsampler_default", 1), ("gcpsampler_uniform", 2)])
        else:
            fn = weighted(
                g,
                [("stratified", 5), ("semistrat", 3), ("uniform", 1), ("gcpsampler_default", 2), ("gcpsampler_stratified", 3), ("gcpsampler_semistrat", 2), ("gcpsampler_uniform", 2), ("zeros", 2)],
            )
        big = g.random() < 0.3
        n_nz = g.choice([0, 1, 2, 3, nnz, nnz + 2]) if not big else nnz + g.randint(1, 5)
        n_z = g.choice([0, 1, 2, 3, nzeros, nzeros + 2]) if not big else nzeros + g.randint(1, 5)
        if nzeros == 0:
            n_z = 0  # a full tensor has no zeros to deliver
        if nnz == 0:
            n_nz = 0
        samples = g.choice([1, 2, 3, size, size + 3])
        return {
            "op": "sample",
            "tolerate": sorted(self.steer),
            "x": enc(x),
            "sparse": sparse,
            "perm_seed": g.randrange(1000),
            "fn": fn,
            "n_nz": n_nz,
            "n_z": n_z,
            "samples": samples,
            "over_sample_rate": g.choice([1.1, 1.1, 1.5, 3.0]),
            "np_seed": np_seed,
            "dense_layout": g.choice(["F", "grown"]),
            "with_replacement": g.random() < 0.5,
            # count data held in integer storage (where every value is a whole number)
            "int_vals": g.random() < 0.3,
            # a sampler object configured on one dense tensor and then asked to sample another one (of another size)
            "configured_on": [g.randint(2, 5) for _ in range(g.randint(2, 3))] if (not sparse and g.random() < 0.3) else None,
        }

    def _gen_solve_step(self, g, sw, np_seed, stochastic: bool, like=None):
        loss = g.choice(sorted(LOSSES))
        need, param = LOSSES[loss]
        sparse = stochastic and g.random() < 0.5
        if need == "positive" and sparse:
            sparse = sparse  # valid_nonneg accepts strictly positive stored values
        moved = like is not None and stochastic and like["sparse"] and g.random() < 0.4
        if moved:
            # the same values at other positions: same shape, same number of nonzeros, another pattern
            loss = like["loss"]
            need, param = LOSSES[loss]
            sparse = True
            x0 = np.asarray(dec(like["x"]), dtype=float)
            flat = x0.reshape(-1).copy()
            g.shuffle(flat_list := flat.tolist())
            x = np.array(flat_list, dtype=float).reshape(x0.shape)
            rank = like["rank"]
        elif like is not None:
            x = np.asarray(dec(like["x"]), dtype=float)
            # same shape, new values appropriate for this loss
            shape = list(x.shape)
            x2, _ = self._gen_data(g, need, sparse)
            xx = np.zeros(shape)
            flat = x2.reshape(-1)
            for i, p in enumerate(itertools.product(*[range(s) for s in shape])):
                xx[p] = flat[i % flat.size]
            if need == "positive" and not sparse:
                xx[xx == 0] = 0.7
            if need == "poscount" and not sparse:
                xx[xx == 0] = 2.0
            if not xx.any():
                xx[tuple(0 for _ in shape)] = 1.0
            x = xx
            rank = like["rank"]
        else:
            x, _ = self._gen_data(g, need, sparse, fill=None if not sparse else g.choice(["random", "nearly_full", "nearly_empty"]))
            rank = g.randint(1, 3)
        lower_finite = loss in ("BERNOULLI_ODDS", "POISSON", "RAYLEIGH", "GAMMA", "NEGATIVE_BINOMIAL", "BETA")
        factors = self._gen_factors(g, x.shape, rank, nonneg=lower_finite or g.random() < 0.5)
        step: Dict[str, Any] = {
            "op": "solve",
            "x": enc(x),
            "sparse": sparse,
            "perm_seed": g.randrange(1000),
            "rank": rank,
            "loss": loss,
            "via_enum": param is None and g.random() < 0.5,
            "factors": [enc(f) for f in factors],
            "np_seed": np_seed,
            "tick": g.choice([1e-3, 0.5, 60.0]),
            "fault": None,
            "tolerate": sorted(self.steer),
            "dense_layout": g.choice(["F", "F", "grown"]),
        }
        if stochastic:
            nnz = int(np.count_nonzero(x))
            nzeros = x.size - nnz
            if sparse:
                step["sampler"] = {
                    "f_kind": "STRATIFIED",
                    "g_kind": g.choice(["STRATIFIED", "SEMISTRATIFIED"]),
                    "f_nz": max(1, min(nnz, g.randint(1, 6))),
                    "f_z": 0 if nzeros == 0 else g.randint(1, 6),
                    "g_nz": max(1, g.randint(1, 4)),
                    "g_z": 0 if nzeros == 0 else g.randint(1, 4),
                    # with the recorded known finding present, keep rejection sampling from coming up short
                    "osr": 40.0 if "stratified_zero_shortfall" in self.steer else g.choice([1.1, 1.5]),
                }
            else:
                step["sampler"] = {"f_kind": "UNIFORM", "g_kind": "UNIFORM", "f_n": g.randint(2, x.size + 2), "g_n": g.randint(1, 6)}
            if g.random() < 0.25:
                step["fault"] = {"where": g.choice(["gradient_sample", "function_handle", "gradient_handle"]), "at": g.randint(1, 6)}
            elif g.random() < 0.25 or (moved and g.random() < 0.6) or (like is not None and like.get("sampler", {}).get("default")):
                # the caller leaves the sampler to the solver (its documented default for this kind of data)
                step["sampler"]["default"] = True
        else:
            if g.random() < 0.3:
                step["mask"] = [int(g.random() < 0.8) for _ in range(x.size)]
                if not any(step["mask"]):
                    step["mask"][0] = 1
            if g.random() < 0.3:
                step["fault"] = {"where": g.choice(["function_handle", "gradient_handle", "callback"]), "at": g.randint(1, 6)}
            elif g.random() < 0.4:
                # cross-validation style: an earlier solve on the SAME data object with another hold-out mask
                pm = [int(g.random() < 0.7) for _ in range(x.size)]
                if not any(pm):
                    pm[-1] = 1
                if all(pm):
                    pm[0] = 0
                step["prior_fold"] = pm
            elif g.random() < 0.35 and step.get("mask") is None:
                # the solver object used directly (its public solve method), from a model whose weights are not all one
                step["direct"] = {"weights": [round(g.uniform(0.3, 3.0), 3) for _ in range(rank)]}
        if g.random() < 0.3:
            # another optimizer object of the same class, configured differently, is constructed (and perhaps used)
            # in the same process just before this solve: objects must not share their configuration or state
            step["decoy"] = {"solve": g.random() < 0.5}
        return step

    def _finish(self, res):
        res.nontrivial = res.stats.get("solves_returned", 0) >= 2 or res.stats.get("samples_checked", 0) >= 3
        return res

    def replay(self, rec) -> RunResult:
        res = RunResult()
        res.init = rec["init"]
        world = self._start(rec["init"])
        for i, step in enumerate(rec["steps"]):
            res.steps.append(step)
            if not self._exec(world, step, i, res):
                break
        return self._finish(res)

    # ------------------------------------------------------------------ world
    def _make_optimizer(self, spec, user_cb=None):
        cls = self.opt_classes[spec["class"]]
        if spec["class"] == "LBFGSB":
            kw = {"maxiter": spec["maxiter"], "factr": spec["factr"], "iprint": -1}
            if spec.get("m"):
                kw["m"] = spec["m"]
            for opt in ("maxls", "maxfun"):
                if spec.get(opt) is not None:
                    kw[opt] = spec[opt]
            if user_cb is not None:
                kw["callback"] = user_cb
            return cls(**kw)
        kw = {k: spec[k] for k in ("rate", "decay", "max_fails", "epoch_iters", "max_iters", "printitn")}
        if spec.get("f_est_tol") is not None:
            kw["f_est_tol"] = spec["f_est_tol"]
        return cls(**kw)

    def _start(self, init):
        w: Dict[str, Any] = {"init": init, "solve_no": 0}
        if init.get("optimizer"):
            w["cb_log"] = []
            w["cb_fault"] = {"at": None, "n": 0}
            cb = None
            if init["optimizer"].get("user_callback"):
                log = w["cb_log"]
                cbf = w["cb_fault"]

                def cb(xk, log=log, cbf=cbf):
                    log.append(float(xk[0]))
                    cbf["n"] += 1
                    if cbf["at"] is not None and cbf["n"] == cbf["at"]:
                        raise InjectedFault("user callback failed")

            w["user_cb"] = cb
            w["optimizer"] = self._make_optimizer(init["optimizer"], cb)
        return w

    def _make_data(self, step):
        ttb = self.ttb
        x = np.asarray(dec(step["x"]), dtype=float)
        if step["sparse"]:
            subs = np.argwhere(x != 0)
            perm = np.random.RandomState(step["perm_seed"]).permutation(subs.shape[0])
            subs = subs[perm]
            vals = x[tuple(subs.T)].reshape(-1, 1)
            if subs.shape[0] == 0:
                return x, ttb.sptensor(shape=tuple(x.shape))
            if step.get("int_vals") and np.all(vals == np.round(vals)):
                vals = vals.astype(np.int64)
            return x, ttb.sptensor(subs, vals, tuple(x.shape))
        if step.get("dense_layout") == "grown" and x.ndim >= 2 and x.shape[-1] >= 2:
            # a dense tensor that reached its size by assignment (its storage then has another memory layout)
            T = ttb.tensor(np.asfortranarray(x[..., :-1].copy()))
            T[(slice(None),) * (x.ndim - 1) + (x.shape[-1] - 1,)] = x[..., -1].copy()
            if tuple(int(s) for s in T.shape) == tuple(x.shape) and np.array_equal(T.data, x):
                return x, T
        return x, ttb.tensor(np.asfortranarray(x.copy()))

    # --------------------------------------------------------------- dispatch
    def _exec(self, w, step, i, res: RunResult) -> bool:
        op = step["op"]
        self._tolerate = set(step.get("tolerate", []))
        res.bump("steps")
        res.bump("op:" + op)
        if op == "sample":
            v = self._exec_sample(w, step, i, res)
        elif op == "sample_edit":
            v = self._exec_sample_edit(w, step, i, res)
        elif op == "solve":
            if w.get("optimizer") is None:
                res.bump("skipped")
                return True
            if w["init"]["optimizer"]["class"] == "LBFGSB":
                v = self._exec_lbfgsb(w, step, i, res)
            else:
                v = self._exec_stochastic(w, step, i, res)
        else:
            res.bump("skipped")
            return True
        if v == "end":
            return False
        if v is not None:
            res.violation = v
            res.events.append([i, op, "violation", v.oracle])
            return False
        return True

    # --------------------------------------------------------------- samplers
    def _exec_sample(self, w, step, i, res) -> Optional[Violation]:
        S = self.samplers
        ttb = self.ttb
        x, data = self._make_data(step)
        fn = step["fn"]
        sparse = step["sparse"]
        size = x.size
        nnz = int(np.count_nonzero(x))
        nzeros = size - nnz
        n_nz, n_z, samples, osr = step["n_nz"], step["n_z"], step["samples"], step["over_sample_rate"]
        if (not sparse and fn not in ("uniform", "gcpsampler_default", "gcpsampler_uniform")) or (nzeros == 0 and n_z > 0) or (nnz == 0 and n_nz > 0):
            res.bump("skipped")
            return None
        V = lambda oracle, detail: Violation("C13", oracle, "sample:" + fn, i, detail)  # noqa: E731
        kind = None  # how to judge the triple
        split = None
        with World(np_seed=step["np_seed"]):
            try:
                if fn == "uniform":
                    out = S.uniform(data, samples)
                    kind = "uniform"
                elif fn == "zeros":
                    # the zero sampler called directly, with and without replacement
                    nz_idx = np.sort(self.ttb.pyttb_utils.tt_sub2ind(data.shape, data.subs)) if nnz else np.array([], dtype=int)
                    wr = bool(step.get("with_replacement", True))
                    want = n_z if wr else min(n_z, nzeros)
                    try:
                        zs = S.zeros(data, nz_idx, want, osr, with_replacement=wr)
                    except ValueError as e:
                        if not wr and ("Need too many zero samples" in str(e) or "Cannot sample more" in str(e)):
                            res.bump("probe:zeros_without_replacement_declined")
                            return None
                        raise
                    zs = np.asarray(zs)
                    if want == 0 and zs.size == 0:
                        res.bump("samples_checked")
                        return None
                    if zs.ndim != 2 or zs.shape[1] != x.ndim or zs.dtype.kind not in "iu":
                        return V("sample_subscripts_inside_tensor", f"zeros(..., {want}, with_replacement={wr}) returned an array of shape {zs.shape} dtype {zs.dtype}")
                    if zs.shape[0] > want:
                        return V("sample_triple_is_consistent", f"zeros(..., {want}) returned {zs.shape[0]} subscripts")
                    if zs.size and ((zs < 0).any() or (zs >= np.array(x.shape)).any()):
                        return V("sample_subscripts_inside_tensor", f"zeros(..., {want}, with_replacement={wr}) returned subscripts outside shape {x.shape}: {zs.tolist()[:6]}")
                    badz = [tuple(r) for r in zs.tolist() if x[tuple(r)] != 0]
                    if badz:
                        return V("sample_values_equal_data", f"zeros(..., {want}, with_replacement={wr}) on shape {x.shape} with {nnz} nonzeros delivered {len(badz)} positions that hold nonzeros, e.g. {badz[:4]}")
                    if not wr and len({tuple(r) for r in zs.tolist()}) != zs.shape[0]:
                        return V("sample_triple_is_consistent", f"zeros(..., {want}, with_replacement=False) delivered repeated positions")
                    res.bump("samples_checked")
                    res.bump("probe:zeros_direct" + ("" if wr else "_without_replacement"))
                    res.events.append([i, fn, "ok", int(zs.shape[0])])
                    return None
                elif fn == "stratified":
                    nz_idx = np.sort(self.ttb.pyttb_utils.tt_sub2ind(data.shape, data.subs)) if nnz else np.array([], dtype=int)
                    out = S.stratified(data, nz_idx, n_nz, n_z, osr)
                    kind, split = "stratified", n_nz
                elif fn == "semistrat":
                    if n_nz == 0 or n_z == 0:
                        res.bump("skipped")
                        return None
                    out = S.semistrat(data, n_nz, n_z)
                    kind, split = "semistrat", n_nz
                else:
                    kw: Dict[str, Any] = {"over_sample_rate": osr}
                    which = "function"
                    if fn == "gcpsampler_default":
                        pass
                    elif fn == "gcpsampler_uniform":
                        kw.update(function_sampler=S.Samplers.UNIFORM, function_samples=samples, gradient_sampler=S.Samplers.UNIFORM, gradient_samples=samples)
                        which = "both"
                    elif fn == "gcpsampler_stratified":
                        cnt = S.StratifiedCount(num_zeros=n_z, num_nonzeros=n_nz)
                        kw.update(function_sampler=S.Samplers.STRATIFIED, function_samples=cnt, gradient_sampler=S.Samplers.STRATIFIED, gradient_samples=cnt)
                        which = "both"
                    elif fn == "gcpsampler_semistrat":
                        if n_nz == 0 or n_z == 0:
                            res.bump("skipped")
                            return None
                        cnt = S.StratifiedCount(num_zeros=n_z, num_nonzeros=n_nz)
                        kw.update(function_sampler=S.Samplers.STRATIFIED, function_samples=cnt, gradient_sampler=S.Samplers.SEMISTRATIFIED, gradient_samples=cnt)
                        which = "gradient_semistrat"
                    built_on = data
                    if step.get("configured_on") and not sparse and fn in ("gcpsampler_uniform", "gcpsampler_default") and tuple(step["configured_on"]) != tuple(x.shape):
                        built_on = ttb.tensor(np.asfortranarray(np.arange(1.0, 1.0 + int(np.prod(step["configured_on"]))).reshape(step["configured_on"])))
                        res.bump("probe:sampler_configured_on_another_tensor")
                    sampler = S.GCPSampler(built_on, **kw)
                    outs = []
                    if fn == "gcpsampler_default":
                        outs.append(("default_function", sampler.function_sample(data)))
                        outs.append(("default_gradient", sampler.gradient_sample(data)))
                    elif which == "both":
                        outs.append(("function", sampler.function_sample(data)))
                        outs.append(("gradient", sampler.gradient_sample(data)))
                    else:
                        outs.append(("function", sampler.function_sample(data)))
                        outs.append(("gradient_semistrat", sampler.gradient_sample(data)))
                    for label, o in outs:
                        if fn == "gcpsampler_default":
                            k2 = "stratified_unknown_split" if sparse else "uniform"
                            sp = None
                        elif fn == "gcpsampler_uniform":
                            # a uniform *gradient* sampler on sparse data is a stratified draw with Poisson counts
                            k2 = "uniform" if (not sparse or label == "function") else "stratified_unknown_split"
                            sp = None
                        elif label == "gradient_semistrat":
                            k2, sp = "semistrat", n_nz
                        else:
                            k2, sp = "stratified", n_nz
                        self._judge_ctx = {"n_z": n_z, "osr": osr} if k2 == "stratified" else None
                        v = self._judge_triple(V, x, o, k2, sp, nnz, nzeros, label)
                        self._judge_ctx = None
                        if self._shortfalls:
                            res.bump("probe:known_stratified_zero_shortfall", self._shortfalls)
                            self._shortfalls = 0
                        if v is not None:
                            return v
                        res.bump("samples_checked")
                    res.events.append([i, fn, "ok"])
                    return None
            except Exception as e:  # noqa: BLE001
                return V("sampler_returns_on_admissible_request", f"{fn}(shape={x.shape}, nnz={nnz}, n_nz={n_nz}, n_z={n_z}, samples={samples}) raised {type(e).__name__}: {e}")
        self._judge_ctx = {"n_z": n_z, "osr": osr} if kind == "stratified" else None
        v = self._judge_triple(V, x, out, kind, split, nnz, nzeros, fn)
        self._judge_ctx = None
        if self._shortfalls:
            res.bump("probe:known_stratified_zero_shortfall", self._shortfalls)
            self._shortfalls = 0
        if v is None:
            res.bump("samples_checked")
            res.events.append([i, fn, "ok", int(np.asarray(out[0]).shape[0])])
            if kind == "stratified" and int(np.asarray(out[0]).shape[0]) < n_nz + n_z:
                res.bump("probe:zero_supply_short")
            if n_z > nzeros or n_nz > nnz:
                res.bump("probe:request_exceeds_supply")
            if nzeros == 0:
                res.bump("probe:full_sparse_tensor")
        return v

    def _exec_sample_edit(self, w, step, i, res) -> Optional[Violation]:
        """History on the data object: sampler A on the data, one nonzero moved IN PLACE (same object, same shape,
        same number of nonzeros), then a NEW sampler B on the edited data; B must describe the data as they are."""
        S = self.samplers
        x, data = self._make_data(step)
        nnz = int(np.count_nonzero(x))
        if not step["sparse"] or nnz == 0 or nnz == x.size:
            res.bump("skipped")
            return None
        V = lambda oracle, detail: Violation("C13", oracle, "sample_edit", i, detail)  # noqa: E731
        n_nz = max(1, min(step["n_nz"], nnz + 2))
        n_z = max(1, min(step["n_z"] or 1, 4))
        cnt = S.StratifiedCount(num_zeros=n_z, num_nonzeros=n_nz)
        with World(np_seed=step["np_seed"]):
            try:
                a = S.GCPSampler(data, function_sampler=S.Samplers.STRATIFIED, function_samples=cnt, gradient_sampler=S.Samplers.STRATIFIED, gradient_samples=cnt, over_sample_rate=step.get("osr", 1.1))
                a.function_sample(data)
                nzs = np.argwhere(x != 0)
                zs = np.argwhere(x == 0)
                src = tuple(int(v) for v in nzs[step["pick"] % nzs.shape[0]])
                dst = tuple(int(v) for v in zs[(step["pick"] // 11) % zs.shape[0]])
                k = int(np.where((np.asarray(data.subs) == np.array(src)).all(axis=1))[0][0])
                data.subs[k, :] = np.array(dst)
                x2 = x.copy()
                x2[dst] = x2[src]
                x2[src] = 0.0
                b = S.GCPSampler(data, function_sampler=S.Samplers.STRATIFIED, function_samples=cnt, gradient_sampler=S.Samplers.STRATIFIED, gradient_samples=cnt, over_sample_rate=step.get("osr", 1.1))
                outs = [("function_after_edit", b.function_sample(data)), ("gradient_after_edit", b.gradient_sample(data))]
            except Exception as e:  # noqa: BLE001
                return V("sampler_returns_on_admissible_request", f"sampling around an in-place edit raised {type(e).__name__}: {e}")
        res.bump("fault:data_edited_in_place_between_samplers")
        for label, o in outs:
            v = self._judge_triple(V, x2, o, "stratified", n_nz, nnz, x.size - nnz, label)
            if self._shortfalls:
                res.bump("probe:known_stratified_zero_shortfall", self._shortfalls)
                self._shortfalls = 0
            if v is not None:
                return v
            res.bump("samples_checked")
        res.events.append([i, "sample_edit", "ok"])
        return None

    def _judge_triple(self, V, x, out, kind, split, nnz, nzeros, label):
        subs, vals, wgts = out
        if np.size(vals) > 1 and np.shape(vals) != np.shape(wgts):
            # values and weights are multiplied element by element by the estimators: a column against a vector
            # broadcasts to a square array and every estimate built on the sample is silently wrong
            return V("sample_triple_is_consistent", f"{label}: values of shape {np.shape(vals)} against weights of shape {np.shape(wgts)}")
        subs = np.asarray(subs)
        vals = np.asarray(vals, dtype=float).reshape(-1)
        wgts = np.asarray(wgts, dtype=float).reshape(-1)
        n = subs.shape[0] if subs.ndim == 2 else -1
        if subs.ndim != 2 or (n > 0 and subs.shape[1] != x.ndim):
            if not (subs.size == 0 and vals.size == 0 and wgts.size == 0):
                return V("sample_triple_is_consistent", f"{label}: subscripts have shape {subs.shape}")
            n = 0
        if not (n == vals.shape[0] == wgts.shape[0]):
            if (
                "stratified_zero_shortfall" in self._tolerate
                and kind in ("stratified", "stratified_unknown_split")
                and vals.shape[0] == wgts.shape[0]
                and n < vals.shape[0]
                and (split is None or n >= split)
                and not (vals[n:] != 0).any()
            ):
                # recorded known finding: rejection sampling delivered fewer zeros than requested but
                # values / weights keep the requested length; judge the part that is consistent.
                # The tolerance is narrow: the shortfall must be one that the documented procedure (draw
                # ceil(rate * ceil(s * size / zeros)) candidates with replacement, keep those that are zeros)
                # can plausibly produce. A delivery far below that (probability < 1e-12) is something else.
                ctx = getattr(self, "_judge_ctx", None)
                if ctx and split is not None and nzeros > 0:
                    from scipy.stats import binom

                    s_req = ctx["n_z"]
                    draws = int(np.ceil(ctx["osr"] * np.ceil(s_req * x.size / nzeros)))
                    delivered = n - split
                    if binom.cdf(delivered, draws, nzeros / x.size) < 1e-12:
                        return V("sample_triple_is_consistent", f"{label}: only {delivered} of {s_req} requested zero samples were delivered although {draws} candidate draws at zero fraction {nzeros / x.size:.3f} make that implausible (p < 1e-12); {n} subscripts, {vals.shape[0]} values")
                self._shortfalls += 1
                k = n if split is None else min(split, n)
                truth = x[tuple(subs[:k].T)] if k else np.array([])
                if k and ((subs[:k] < 0).any() or (subs[:k] >= np.array(x.shape)).any()):
                    return V("sample_subscripts_inside_tensor", f"{label}: subscripts outside shape {x.shape}")
                if split is not None and k and not np.array_equal(vals[:k], truth):
                    return V("sample_values_equal_data", f"{label}: nonzero stratum values {vals[:k].tolist()} but data there {truth.tolist()}")
                return None
            return V("sample_triple_is_consistent", f"{label}: {n} subscripts, {vals.shape[0]} values, {wgts.shape[0]} weights")
        if n == 0:
            return None
        if subs.dtype.kind not in "iu":
            return V("sample_subscripts_inside_tensor", f"{label}: subscripts have dtype {subs.dtype}")
        if (subs < 0).any() or (subs >= np.array(x.shape)).any():
            return V("sample_subscripts_inside_tensor", f"{label}: subscripts outside shape {x.shape}: {subs[((subs < 0) | (subs >= np.array(x.shape))).any(axis=1)][:3].tolist()}")
        truth = x[tuple(subs.T)]
        size = x.size
        if kind == "uniform":
            if not np.array_equal(vals, truth):
                return V("sample_values_equal_data", f"{label}: values {vals.tolist()} but data there {truth.tolist()}")
            if abs(wgts.sum() - size) > 1e-9 * size:
                return V("sample_weights_total_population", f"{label}: uniform weights total {wgts.sum()} for {size} entries")
            return None
        if kind == "stratified_unknown_split":
            if not np.array_equal(vals, truth):
                return V("sample_values_equal_data", f"{label}: values {vals.tolist()} but data there {truth.tolist()}")
            nzpart = truth != 0
            tot_nz, tot_z = wgts[nzpart].sum(), wgts[~nzpart].sum()
            if nzpart.any() and abs(tot_nz - nnz) > 1e-9 * max(1, nnz):
                return V("sample_weights_total_population", f"{label}: nonzero-stratum weights total {tot_nz} for {nnz} nonzeros")
            if (~nzpart).any() and abs(tot_z - nzeros) > 1e-9 * max(1, nzeros):
                return V("sample_weights_total_population", f"{label}: zero-stratum weights total {tot_z} for {nzeros} zeros")
            return None
        # stratified / semistrat with a known split
        k = min(split, n)
        if not np.array_equal(vals[:k], truth[:k]) or (truth[:k] == 0).any():
            return V("sample_values_equal_data", f"{label}: nonzero stratum values {vals[:k].tolist()} but data there {truth[:k].tolist()}")
        if k and abs(wgts[:k].sum() - nnz) > 1e-9 * max(1, nnz):
            return V("sample_weights_total_population", f"{label}: nonzero-stratum weights total {wgts[:k].sum()} for {nnz} nonzeros")
        if (vals[k:] != 0).any():
            return V("sample_values_equal_data", f"{label}: zero stratum carries values {vals[k:].tolist()}")
        if kind == "stratified":
            if (truth[k:] != 0).any():
                return V("sample_values_equal_data", f"{label}: entries drawn as zeros are not zeros of the data: {truth[k:].tolist()}")
            if n > k and abs(wgts[k:].sum() - nzeros) > 1e-9 * max(1, nzeros):
                return V("sample_weights_total_population", f"{label}: zero-stratum weights total {wgts[k:].sum()} for {nzeros} zeros")
        else:  # semistrat: zeros drawn without rejection, weights total all entries
            if n > k and abs(wgts[k:].sum() - size) > 1e-9 * size:
                return V("sample_weights_total_population", f"{label}: semi-stratified zero-stratum weights total {wgts[k:].sum()} for {size} entries")
        return None

    # ------------------------------------------------------- stochastic solves
    def _handles(self, step, data):
        loss = step["loss"]
        need, param = LOSSES[loss]
        obj = getattr(self.Objectives, loss)
        fh, gh, lb = self.setup(obj, data, param)
        return obj, fh, gh, lb

    def _build_sampler(self, step, data, fault, counters):
        S = self.samplers
        sp = step["sampler"]
        kw: Dict[str, Any] = {}
        if sp["f_kind"] == "UNIFORM":
            kw.update(function_sampler=S.Samplers.UNIFORM, function_samples=sp["f_n"], gradient_sampler=S.Samplers.UNIFORM, gradient_samples=sp["g_n"])
        else:
            kw.update(
                function_sampler=S.Samplers.STRATIFIED,
                function_samples=S.StratifiedCount(num_zeros=sp["f_z"], num_nonzeros=sp["f_nz"]),
                gradient_sampler=getattr(S.Samplers, sp["g_kind"]),
                gradient_samples=S.StratifiedCount(num_zeros=sp["g_z"], num_nonzeros=sp["g_nz"]),
            )
        kw["over_sample_rate"] = sp.get("osr", 1.1)
        base = S.GCPSampler(data, **kw)

        def short(out):
            return np.asarray(out[0]).shape[0] != np.asarray(out[2]).reshape(-1).shape[0]

        class Proxy(S.GCPSampler):  # recording / faulting collaborator
            def __init__(self):  # noqa: D107
                pass

            def function_sample(self, d):
                counters["f_calls"] += 1
                out = base.function_sample(d)
                counters["f_sample"] = out
                if short(out):
                    counters["shortfall"] = True
                return out

            def gradient_sample(self, d):
                counters["g_calls"] += 1
                if fault and fault["where"] == "gradient_sample" and counters["g_calls"] == fault["at"]:
                    counters["fault_fired"] = True
                    raise InjectedFault("sampler failed")
                out = base.gradient_sample(d)
                if short(out):
                    counters["shortfall"] = True
                return out

            @property
            def crng(self):
                return base.crng

        return Proxy()

    def _wrap_handle(self, fn, name, fault, counters):
        def wrapped(*a, **k):
            counters[name] = counters.get(name, 0) + 1
            if fault and fault["where"] == name and counters[name] == fault["at"]:
                counters["fault_fired"] = True
                raise InjectedFault(name + " failed")
            return fn(*a, **k)

        return wrapped

    def _decoy(self, w, step, res):
        d = step.get("decoy")
        if not d:
            return
        spec = dict(w["init"]["optimizer"])
        if spec["class"] == "LBFGSB":
            spec.update(maxiter=1 if spec["maxiter"] > 1 else 4, factr=1e13, m=7, maxls=6, maxfun=2, user_callback=False)
        else:
            spec.update(rate=spec["rate"] * 3.7, decay=0.9, max_fails=spec["max_fails"] + 2, epoch_iters=spec["epoch_iters"] + 2, max_iters=1, f_est_tol=None, printitn=0)
        other = self._make_optimizer(spec)
        res.bump("probe:other_optimizer_object_constructed")
        if d.get("solve"):
            plain = dict(step)
            plain.pop("prior_fold", None)
            self._solve_once(other, plain, 0.25, False)
            res.bump("probe:other_optimizer_object_used")

    def _solve_once(self, optimizer, step, tick, with_fault: bool, prior: bool = False):
        """One gcp_opt call in a fresh world. Returns dict(outcome). With ``prior`` (and a recorded ``prior_fold``) the
        call is preceded by another solve on the same data object and optimizer under the other hold-out mask."""
        ttb = self.ttb
        x, data = self._make_data(step)
        obj, fh, gh, lb = self._handles(step, data)
        fault = step.get("fault") if with_fault else None
        counters: Dict[str, Any] = {"f_calls": 0, "g_calls": 0}
        factors = [np.asarray(dec(f), dtype=float) for f in step["factors"]]
        init = ttb.ktensor([f.copy() for f in factors])
        fhw = self._wrap_handle(fh, "function_handle", fault, counters)
        ghw = self._wrap_handle(gh, "gradient_handle", fault, counters)
        use_enum = step.get("via_enum") and not (fault and fault["where"] in ("function_handle", "gradient_handle"))
        objective = obj if use_enum else (fhw, ghw, lb)
        clock = SimClock({"tick": tick})
        out: Dict[str, Any] = {"clock": clock, "x": x, "lb": lb, "fh": fh, "counters": counters}
        stochastic = "sampler" in step
        with World(clock=clock, np_seed=step["np_seed"]) as wd:
            try:
                if stochastic and step["sampler"].get("default"):
                    M, M0, info = ttb.gcp_opt(data, step["rank"], objective, optimizer, init=init, printitn=optimizer._printitn)
                elif stochastic:
                    sampler = self._build_sampler(step, data, fault, counters)
                    M, M0, info = ttb.gcp_opt(data, step["rank"], objective, optimizer, init=init, sampler=sampler, printitn=optimizer._printitn)
                else:
                    mask = None
                    if step.get("mask") is not None:
                        mask = ttb.tensor(np.array(step["mask"], dtype=float).reshape(x.shape, order="F"))
                    out["mask"] = None if mask is None else mask.data.copy()
                    if prior and step.get("prior_fold") is not None and len(step["prior_fold"]) == x.size:
                        pmask = ttb.tensor(np.array(step["prior_fold"], dtype=float).reshape(x.shape, order="F"))
                        ttb.gcp_opt(data, step["rank"], obj if use_enum else (fh, gh, lb), optimizer, init=ttb.ktensor([f.copy() for f in factors]), mask=pmask, printitn=0)
                        out["prior_done"] = True
                    if step.get("direct") and mask is None and fault is None and len(step["direct"]["weights"]) == step["rank"]:
                        M0 = ttb.ktensor([f.copy() for f in factors], np.array(step["direct"]["weights"], dtype=float))
                        M, info = optimizer.solve(M0.copy(), data, fhw, ghw, lb)
                        out["direct"] = True
                    else:
                        M, M0, info = ttb.gcp_opt(data, step["rank"], objective, optimizer, init=init, mask=mask, printitn=0)
                out.update(M=M, M0=M0, info=info)
            except Exception as e:  # noqa: BLE001
                out["error"] = e
            out["rng_after"] = arr_digest(np.random.get_state()[1])
        out["log"] = wd.log.getvalue()
        return out

    @staticmethod
    def _model_values(M, subs):
        w = np.asarray(M.weights, dtype=float)
        acc = np.tile(w, (subs.shape[0], 1))
        for k, f in enumerate(M.factor_matrices):
            acc = acc * np.asarray(f, dtype=float)[subs[:, k], :]
        return acc.sum(axis=1)

    def _estimate(self, M, sample, fh):
        subs, vals, wgts = sample
        subs = np.asarray(subs)
        if subs.size == 0:
            return 0.0
        mv = self._model_values(M, subs)
        with np.errstate(all="ignore"):
            y = fh(np.asarray(vals, dtype=float).reshape(-1), mv)
            return float(np.sum(np.asarray(wgts, dtype=float).reshape(-1) * y))

    @staticmethod
    def _close(x, y) -> bool:
        """Equal up to rounding: bit identity is the rule, but numpy/BLAS kernels choose their path by the alignment of
        freshly allocated buffers, so two identical calls in one process may differ in the last bits (seen in the C18
        soak, DESIGN.md section 11). Anything above 1e-9 relative is a difference."""
        x = np.asarray(x, dtype=float)
        y = np.asarray(y, dtype=float)
        if x.shape != y.shape:
            return False
        if np.array_equal(x, y, equal_nan=True):
            return True
        with np.errstate(all="ignore"):
            fin = np.isfinite(x)
            if not np.array_equal(fin, np.isfinite(y)) or not np.array_equal(x[~fin], y[~fin], equal_nan=True):
                return False
            return bool(np.all(np.abs(x - y)[fin] <= 1e-9 * (1.0 + np.abs(x)[fin])))

    def _same_models(self, a, b) -> Optional[str]:
        if not self._close(a.weights, b.weights):
            return "weights differ"
        for n, (fa, fb) in enumerate(zip(a.factor_matrices, b.factor_matrices)):
            if fa.shape != fb.shape or not self._close(fa, fb):
                return f"factor {n} differs (max abs diff {float(np.nanmax(np.abs(fa - fb))) if fa.shape == fb.shape else 'shape'})"
        return None

    def _exec_stochastic(self, w, step, i, res) -> Optional[Violation]:
        spec = w["init"]["optimizer"]
        cls = spec["class"]
        V = lambda oracle, detail: Violation("C13", oracle, "solve:" + cls, i, detail)  # noqa: E731
        w["solve_no"] += 1
        fault = step.get("fault")
        self._decoy(w, step, res)
        out = self._solve_once(w["optimizer"], step, step["tick"], True)
        res.sim_seconds += out["clock"].span()
        c = out["counters"]
        if fault and c.get("fault_fired"):
            res.bump("fault:" + fault["where"])
            if "error" not in out or not isinstance(out["error"], InjectedFault):
                return V("collaborator_fault_propagates", f"injected {fault} but solve ended with {out.get('error')!r}")
            res.bump("probe:aborted_solve")
            w["aborted_before"] = True
            res.events.append([i, "aborted"])
            return None
        if c.get("shortfall") and "stratified_zero_shortfall" in self._tolerate:
            # consequence of the recorded known finding (mismatching sample triple): stop this run here
            res.bump("probe:known_stratified_zero_shortfall")
            res.events.append([i, "known_shortfall"])
            return "end"
        default_sampler = bool(step.get("sampler", {}).get("default"))
        if default_sampler:
            res.bump("probe:solver_default_sampler")
            e = out.get("error")
            if isinstance(e, ValueError) and "stratified_zero_shortfall" in self._tolerate and ("could not be broadcast together with shapes" in str(e) or "arrays must have the same length" in str(e)):
                # the recorded known finding (fewer subscripts than values/weights in a stratified sample) as it shows
                # without the proxy: the solver trips over the mismatching triple. Nothing else is excused.
                res.bump("probe:known_stratified_zero_shortfall")
                res.events.append([i, "known_shortfall"])
                return "end"
        if "error" in out:
            e = out["error"]
            if isinstance(e, ValueError) and "Infinite gradient" in str(e):
                res.bump("probe:infinite_gradient_abort")
                w["aborted_before"] = True
                res.events.append([i, "inf_gradient"])
                return None
            return V("solve_returns_on_admissible_input", f"solve #{w['solve_no']} raised {type(e).__name__}: {e}")
        res.bump("solves_returned")
        if w.get("aborted_before"):
            res.bump("probe:reuse_after_abort")
        if w["solve_no"] > 1:
            res.bump("probe:optimizer_reused")
        M, M0, info = out["M"], out["M0"], out["info"]
        lb, fh = out["lb"], out["fh"]
        epoch_iters = spec["epoch_iters"]
        # lower bound
        with np.errstate(invalid="ignore"):
            below = [int(np.sum(np.asarray(f) < lb)) for f in M.factor_matrices]
        if any(below):
            mn = min(float(np.nanmin(f)) for f in M.factor_matrices)
            return V("factors_respect_lower_bound", f"smallest factor entry {mn} below the loss's lower bound {lb}")
        trace = np.asarray(info["f_est_trace"], dtype=float).reshape(-1)
        if default_sampler:
            # no proxy, hence no independent count of epochs and no copy of the function sample: the per-solve clauses
            # on the trace are left to the steps with a proxy; bounds and the fresh-optimizer comparison remain
            epochs = trace.shape[0] - 1
            return self._compare_with_fresh(w, step, i, res, out, M, info, trace, epochs, cls, spec, V)
        if c["g_calls"] % epoch_iters != 0:
            return V("trace_has_start_plus_one_value_per_epoch", f"{c['g_calls']} gradient samples with epoch_iters={epoch_iters}")
        epochs = c["g_calls"] // epoch_iters
        if trace.shape[0] != 1 + epochs:
            return V("trace_has_start_plus_one_value_per_epoch", f"f_est_trace has {trace.shape[0]} entries after {epochs} completed epochs (expected {1 + epochs})")
        for key in ("step_trace", "time_trace"):
            if np.asarray(info[key]).reshape(-1).shape[0] != 1 + epochs:
                return V("trace_has_start_plus_one_value_per_epoch", f"{key} has {np.asarray(info[key]).size} entries after {epochs} completed epochs")
        if epochs > spec["max_iters"]:
            return V("epoch_limit_respected", f"{epochs} epochs with max_iters={spec['max_iters']}")
        sample = c.get("f_sample")
        if c["f_calls"] != 1 or sample is None:
            return V("function_sample_is_fixed", f"function_sample was called {c['f_calls']} times")
        f_start = self._estimate(M0, sample, fh)
        f_end = self._estimate(M, sample, fh)
        if np.isnan(trace).any() or np.isnan(f_end) or np.isnan(f_start):
            res.bump("probe:nan_estimate")
            # An estimate that is not a number is not "better" than anything: from a starting guess with a finite
            # estimate the solver must not hand back a model whose estimate is NaN (the ordering clauses below are
            # left to the runs without NaN, where they are unambiguous)
            if np.isfinite(f_start) and np.isnan(f_end):
                return V("result_no_worse_than_start", f"the returned model's estimate on the function sample is NaN, the starting guess's was {f_start!r} (trace {trace.tolist()})")
        else:
            tol = lambda v: 1e-9 * (1.0 + abs(v))  # noqa: E731
            if abs(trace[0] - f_start) > tol(f_start) and np.isfinite(f_start):
                return V("trace_starts_at_initial_estimate", f"f_est_trace[0]={trace[0]!r} but the estimate for the starting guess is {f_start!r}")
            if np.isfinite(f_start) and not (f_end <= f_start + tol(f_start)):
                return V("result_no_worse_than_start", f"estimate at result {f_end!r} > at start {f_start!r}")
            best = float(np.min(trace))
            if np.isfinite(best) and abs(f_end - best) > tol(best):
                return V("result_is_best_of_trace", f"estimate at returned model {f_end!r} but min(f_est_trace)={best!r} (trace {trace.tolist()})")
            if (np.diff(trace) > 0).any():
                res.bump("probe:epoch_failed_and_rolled_back")
        if epochs < spec["max_iters"]:
            res.bump("probe:stopped_early")
        return self._compare_with_fresh(w, step, i, res, out, M, info, trace, epochs, cls, spec, V)

    def _keep_result(self, w, M, info):
        """Remember what a solve handed back (the objects themselves and a private copy of their content)."""
        arrays = [("weights", M.weights)] + [(f"factor {n}", f) for n, f in enumerate(M.factor_matrices)]
        if isinstance(info, dict):
            for k in ("f_est_trace", "step_trace", "time_trace"):
                if isinstance(info.get(k), np.ndarray):
                    arrays.append((k, info[k]))
        w.setdefault("kept", []).append((w["solve_no"], [(nm, a, np.array(a, copy=True)) for nm, a in arrays]))

    def _check_kept(self, w, V):
        """What earlier solves returned belongs to the caller: a later solve must not have changed it."""
        for no, arrays in w.get("kept", []):
            for nm, a, snap in arrays:
                if a.shape != snap.shape or not np.array_equal(a, snap, equal_nan=True):
                    return V("earlier_result_unchanged_by_later_solve", f"{nm} returned by solve #{no} changed during solve #{w['solve_no']}: {np.asarray(a).reshape(-1)[:6].tolist()} was {snap.reshape(-1)[:6].tolist()}")
        return None

    def _compare_with_fresh(self, w, step, i, res, out, M, info, trace, epochs, cls, spec, V):
        v = self._check_kept(w, V)
        if v is not None:
            return v
        self._keep_result(w, M, info)
        # differential: fresh optimizer, same stream, other clock
        fresh = self._make_optimizer(spec)
        ref = self._solve_once(fresh, step, step["tick"] * 7.0 + 0.125, False)
        if "error" in ref:
            return V("fresh_solver_agrees", f"the same solve on a fresh optimizer raised {ref['error']!r}")
        diff = self._same_models(M, ref["M"])
        if diff is None and not self._close(trace, np.asarray(ref["info"]["f_est_trace"]).reshape(-1)):
            diff = "f_est_trace differs"
        if diff is None and not self._close(np.asarray(info["step_trace"]), np.asarray(ref["info"]["step_trace"])):
            diff = "step_trace differs"
        if diff is None and out["rng_after"] != ref["rng_after"]:
            diff = "random stream consumed differently"
        if diff is not None:
            return V("solve_depends_only_on_arguments_and_stream", f"solve #{w['solve_no']} on the reused {cls} object vs. a fresh one: {diff}")
        res.states.add(hash((cls, step["loss"], step["sparse"], epochs, w["solve_no"], bool(w.get("aborted_before")))) & 0xFFFFFFFF)
        res.events.append([i, "solved", epochs, arr_digest(np.asarray(M.factor_matrices[0]))])
        return None

    # ------------------------------------------------------------------ LBFGSB
    def _exec_lbfgsb(self, w, step, i, res) -> Optional[Violation]:
        ttb = self.ttb
        spec = w["init"]["optimizer"]
        V = lambda oracle, detail: Violation("C13", oracle, "solve:LBFGSB", i, detail)  # noqa: E731
        if step["sparse"] or "sampler" in step:
            res.bump("skipped")
            return None
        w["solve_no"] += 1
        fault = step.get("fault")
        self._decoy(w, step, res)
        opt = w["optimizer"]
        if fault and fault["where"] == "callback" and w.get("user_cb") is None:
            fault = {"where": "function_handle", "at": fault["at"]}
        step_eff = dict(step)
        step_eff["fault"] = fault
        if fault and fault["where"] == "callback":
            # the user's own callback (given to the constructor) fails at its k-th call of this solve
            w["cb_fault"].update(at=fault["at"], n=0)
            out = self._solve_once(opt, step_eff, step["tick"], False)
            w["cb_fault"].update(at=None, n=0)
            if isinstance(out.get("error"), InjectedFault):
                res.bump("fault:callback")
                res.bump("probe:aborted_solve")
                w["aborted_before"] = True
                res.events.append([i, "aborted"])
                return None
        else:
            out = self._solve_once(opt, step_eff, step["tick"], True, prior=fault is None)
            if out.get("prior_done"):
                res.bump("probe:earlier_solve_on_same_data_object")
            c = out["counters"]
            if fault and c.get("fault_fired"):
                res.bump("fault:" + fault["where"])
                if not isinstance(out.get("error"), InjectedFault):
                    return V("collaborator_fault_propagates", f"injected {fault} but solve ended with {out.get('error')!r}")
                res.bump("probe:aborted_solve")
                w["aborted_before"] = True
                res.events.append([i, "aborted"])
                return None
        res.sim_seconds += out["clock"].span()
        if "error" in out:
            e = out["error"]
            return V("solve_returns_on_admissible_input", f"LBFGSB solve #{w['solve_no']} raised {type(e).__name__}: {e}")
        res.bump("solves_returned")
        if w.get("aborted_before"):
            res.bump("probe:reuse_after_abort")
        if w["solve_no"] > 1:
            res.bump("probe:optimizer_reused")
        M, M0, info = out["M"], out["M0"], out["info"]
        x, lb, fh = out["x"], out["lb"], out["fh"]
        with np.errstate(invalid="ignore"):
            below = [int(np.sum(np.asarray(f) < lb)) for f in M.factor_matrices]
        if any(below):
            mn = min(float(np.nanmin(f)) for f in M.factor_matrices)
            return V("factors_respect_lower_bound", f"smallest factor entry {mn} below the loss's lower bound {lb}")
        from .engine_c11 import kfull

        def exact(K):
            m = kfull(np.asarray(K.weights, dtype=float), [np.asarray(f, dtype=float) for f in K.factor_matrices])
            with np.errstate(all="ignore"):
                y = fh(x, m)
            if out.get("mask") is not None:
                y = y * out["mask"]
            return float(np.sum(y))

        f0, f1 = exact(M0), exact(M)
        if np.isfinite(f0) and not (f1 <= f0 + 1e-9 * (1.0 + abs(f0))):
            return V("lbfgsb_never_worse_than_start", f"objective at result {f1!r} > at start {f0!r}")
        if np.isnan(f1):
            res.bump("probe:nan_estimate")
        v = self._check_kept(w, V)
        if v is not None:
            return v
        self._keep_result(w, M, None)
        fresh = self._make_optimizer(spec, w.get("user_cb"))
        ref = self._solve_once(fresh, step, step["tick"] * 3.0 + 0.5, False)
        if "error" in ref:
            return V("fresh_solver_agrees", f"the same solve on a fresh LBFGSB raised {ref['error']!r}")
        diff = self._same_models(M, ref["M"])
        if diff is None and int(info.get("nit", -1)) != int(ref["info"].get("nit", -1)):
            diff = f"iteration counts differ ({info.get('nit')} vs {ref['info'].get('nit')})"
        if diff is not None:
            return V("solve_depends_only_on_arguments_and_stream", f"solve #{w['solve_no']} on the reused LBFGSB object vs. a fresh one: {diff}")
        res.states.add(hash(("LBFGSB", step["loss"], int(info.get("nit", 0)), w["solve_no"], bool(w.get("aborted_before")))) & 0xFFFFFFFF)
        res.events.append([i, "solved", int(info.get("nit", 0)), arr_digest(np.asarray(M.factor_matrices[0]))])
        return None
