"""Engine A, "huge" scenario: a sparse tensor whose modes are far too long for a dense twin.

Same idea as the tensor-history engine (a dict-of-cells model is the oracle, every step is a read or a write through
``__getitem__`` / ``__setitem__``, the stored state is compared with the model after every step), but only the sparse
tensor exists: extents are 2**24 .. 2**40, positions cluster around the values where narrower number types stop being
exact (2**24 for float32, 2**31 / 2**32 for 32-bit integers) and at both ends of a mode. Nothing grows.
"""
from __future__ import annotations

import itertools
from typing import Any, Dict, List, Optional

import numpy as np

from .kernel import RunResult, Violation, dec, enc, weighted

EDGES = [0, 1, 2, 2**24 - 1, 2**24, 2**24 + 1, 2**24 + 3, 2**25 + 1, 2**31 - 1, 2**31, 2**31 + 1, 2**32 - 1, 2**32, 2**32 + 1, 2**33 + 5, 2**40 - 3]


def gen_init(sw) -> Dict[str, Any]:
    order = sw.choice([2, 2, 3])
    shape = [sw.randint(2, 4) for _ in range(order)]
    n_huge = 1 if sw.random() < 0.7 else 2
    for d in sw.sample(range(order), min(n_huge, order)):
        shape[d] = sw.choice([2**24 + 9, 2**25 + 2, 2**31 + 7, 2**32 + 5, 2**33 + 9]) if n_huge == 2 else sw.choice([2**24 + 9, 2**25 + 2, 2**31 + 7, 2**32 + 5, 2**33 + 9, 2**40])
    cells = {}
    for _ in range(sw.randint(0, 5)):
        p = tuple(_pos(sw, shape, d) for d in range(order))
        cells[p] = -(len(cells) + 1) - 0.25
    return {"huge": True, "shape": shape, "subs": [list(p) for p in cells], "vals": list(cells.values()), "n_steps": sw.randint(3, 14)}


def _pos(g, shape, d) -> int:
    ext = shape[d]
    if ext <= 8:
        return g.randrange(ext)
    c = [e for e in EDGES if e < ext] + [ext - 1, ext - 2]
    return g.choice(c)


class HugeScenario:
    def __init__(self, engine):
        self.eng = engine
        self.ttb = engine.ttb

    # ------------------------------------------------------------------ generation
    def gen_step(self, m, g, counter) -> Optional[Dict[str, Any]]:
        shape = m.shape
        N = len(shape)
        op = weighted(g, [("hs_w_subs", 3), ("hs_w_region", 4), ("hs_r_subs", 2), ("hs_r_region", 3), ("hs_w_full", 2)])

        def val():
            counter[0] += 1
            return 0.0 if g.random() < 0.2 else counter[0] + 0.5

        def near_existing(d):
            # a position that is, or is next to, a stored one -- so that writes meet what is already there
            if m.cells and g.random() < 0.5:
                p = g.choice(sorted(m.cells))[d]
                q = p + g.choice([0, 0, 1, -1])
                return min(max(q, 0), shape[d] - 1)
            return _pos(g, shape, d)

        if op == "hs_w_full":
            return {"op": op, "key": [near_existing(d) for d in range(N)], "val": val()}
        if op in ("hs_w_subs", "hs_r_subs"):
            rows = sorted({tuple(near_existing(d) for d in range(N)) for _ in range(g.randint(1, 4))})
            g.shuffle(rows)
            st: Dict[str, Any] = {"op": op, "subs": [list(r) for r in rows]}
            if op == "hs_w_subs":
                st["vals"] = [val() for _ in rows]
            return st
        kind = weighted(g, [("scalar", 3), ("zero", 2), ("tensor", 3)]) if op == "hs_w_region" else None
        key: List[Any] = []
        for d in range(N):
            u = g.random()
            a = near_existing(d)
            if shape[d] > 8:
                # The library materialises the extent of a mode for some key forms (a slice in a read or in a scalar
                # write); such requests on a mode of 2**24 and more are a matter of memory, not of this property.
                if op == "hs_r_region":
                    if shape[d] > 2**25 + 2:
                        return None
                    key.append(a)
                elif kind == "scalar" or u < 0.6:
                    key.append(a)
                else:
                    key.append(enc(slice(a, min(shape[d], a + g.randint(1, 3)), None)))
                continue
            if u < 0.45:
                key.append(a)
            elif u < 0.85:
                b = min(shape[d], a + g.randint(1, 3))
                key.append(enc(slice(a, b if (b < shape[d] or g.random() < 0.5) else None, None)))
            else:
                key.append(enc(slice(None, None, None)))
        if op == "hs_r_region" and all(isinstance(k, int) for k in key):
            d = g.choice([d for d in range(N) if shape[d] <= 8] or [0])
            if shape[d] > 8:
                return None
            key[d] = enc(slice(key[d], key[d] + 1, None))
        st = {"op": op, "key": key}
        if op == "hs_w_region":
            pykey = [dec(k) if isinstance(k, dict) else k for k in key]
            lists, kept = m.region_lists(pykey)
            cnt = int(np.prod([len(x) for x in lists]))
            if cnt == 0 or cnt > 64:
                return None
            if kind == "tensor" and not kept:
                kind = "scalar"
            if kind == "scalar":
                counter[0] += 1
                st["rhs"] = {"kind": "scalar", "val": counter[0] + 0.5}
            elif kind == "zero":
                st["rhs"] = {"kind": "scalar", "val": 0}
            else:
                st["rhs"] = {"kind": "tensor", "shape": [len(lists[d]) for d in kept], "vals_f": [val() for _ in range(cnt)]}
        return st

    # ------------------------------------------------------------------- execution
    def start(self, cfg, res: RunResult):
        from .engine_a import Model

        ttb = self.ttb
        shape = tuple(cfg["shape"])
        m = Model(shape)
        for p, v in zip(cfg["subs"], cfg["vals"]):
            m.set(p, v)
        if cfg["subs"]:
            S = ttb.sptensor(np.array(cfg["subs"], dtype=np.int64).reshape(len(cfg["subs"]), len(shape)), np.array(cfg["vals"], dtype=float).reshape(-1, 1), shape)
        else:
            S = ttb.sptensor(shape=shape)
        w = {"m": m, "S": S, "D": None, "lastop": "init", "huge": True}
        v = self.check_state(w, -1, "init")
        if v is not None:
            res.violation = v
            return None
        return w

    def _viol(self, oracle, op, i, detail):
        return Violation("C04", oracle, op, i, detail)

    def check_state(self, w, i, op) -> Optional[Violation]:
        m, S = w["m"], w["S"]
        try:
            sshape = tuple(int(s) for s in S.shape)
        except Exception as e:  # noqa: BLE001
            return self._viol("sparse_state_equals_model", op, i, f"unreadable shape {S.shape!r}: {e!r}")
        if sshape != tuple(m.shape):
            return self._viol("sparse_state_equals_model", op, i, f"sparse shape {S.shape} but model shape {tuple(m.shape)}")
        subs = np.asarray(S.subs)
        vals = np.asarray(S.vals).reshape(-1)
        got: Dict[tuple, float] = {}
        if subs.size or vals.size:
            if subs.ndim != 2 or subs.shape[1] != len(sshape) or subs.shape[0] != vals.shape[0]:
                return self._viol("sparse_wellformed", op, i, f"subs {subs.shape} / vals {vals.shape} for shape {sshape}")
            if subs.dtype.kind not in "iu":
                return self._viol("sparse_wellformed", op, i, f"stored subscripts of type {subs.dtype}")
            for row, v in zip(subs.tolist(), vals.tolist()):
                t = tuple(int(x) for x in row)
                if any(not (0 <= x < s) for x, s in zip(t, sshape)):
                    return self._viol("sparse_wellformed", op, i, f"stored subscript out of range: {t} for shape {sshape}")
                if t in got:
                    return self._viol("sparse_wellformed", op, i, f"duplicate stored subscript {t}")
                if v == 0:
                    return self._viol("sparse_wellformed", op, i, f"explicit zero stored at {t}")
                got[t] = v
        want = {p: v for p, v in m.cells.items() if v != 0}
        if got != want:
            diff = sorted(set(got.items()) ^ set(want.items()))[:6]
            return self._viol("sparse_state_equals_model", op, i, f"stored entries differ from the model: {diff} (stored {sorted(got.items())[:8]}, model {sorted(want.items())[:8]})")
        return None

    def exec_step(self, w, step, i, res: RunResult) -> bool:
        op = step["op"]
        m, S = w["m"], w["S"]
        res.bump("steps")
        res.bump("op:" + op)
        res.bump("probe:huge_sparse_step")
        fn = getattr(self, "_" + op, None)
        if fn is None:
            res.bump("skipped")
            return True
        v = fn(w, step, i, res)
        if v == "skip":
            res.bump("skipped")
            return True
        if v is None:
            v = self.check_state(w, i, op)
        if v is not None:
            res.violation = v
            res.events.append([i, op, "violation", v.oracle])
            return False
        res.events.append([i, op, len(m.cells)])
        return True

    def _inside(self, m, pos) -> bool:
        return len(pos) == m.order and all(isinstance(p, int) and 0 <= p < s for p, s in zip(pos, m.shape))

    def _call(self, fn, what, op, i):
        try:
            return fn(), None
        except Exception as e:  # noqa: BLE001
            return None, self._viol("no_exception_on_admissible_request", op, i, f"{what} raised {type(e).__name__}: {e}")

    def _hs_w_full(self, w, step, i, res):
        m, S = w["m"], w["S"]
        key = [int(k) for k in step["key"]]
        if not self._inside(m, key):
            return "skip"

        def do():
            S[tuple(key)] = step["val"]

        _, v = self._call(do, f"S[{key}] = {step['val']}", "hs_w_full", i)
        if v is not None:
            return v
        m.set(tuple(key), step["val"])
        res.bump("writes_effective")
        return None

    def _hs_w_subs(self, w, step, i, res):
        m, S = w["m"], w["S"]
        subs, vals = step["subs"], step["vals"]
        if not subs or len(vals) != len(subs) or len({tuple(r) for r in subs}) != len(subs) or not all(self._inside(m, r) for r in subs):
            return "skip"

        def do():
            S[np.array(subs, dtype=np.int64)] = np.array(vals, dtype=float).reshape(-1, 1)

        _, v = self._call(do, f"S[subs {subs}] = {vals}", "hs_w_subs", i)
        if v is not None:
            return v
        for r, x in zip(subs, vals):
            m.set(tuple(r), x)
        res.bump("writes_effective")
        return None

    def _hs_r_subs(self, w, step, i, res):
        m, S = w["m"], w["S"]
        subs = step["subs"]
        if not subs or not all(self._inside(m, r) for r in subs):
            return "skip"
        got, v = self._call(lambda: S[np.array(subs, dtype=np.int64)], f"S[subs {subs}]", "hs_r_subs", i)
        if v is not None:
            return v
        want = [m.get(tuple(r)) for r in subs]
        g = np.asarray(got).reshape(-1).tolist()
        if g != want:
            return self._viol("read_returns_model_value", "hs_r_subs", i, f"S[subs {subs}] returned {g}, model says {want}")
        res.bump("reads_checked")
        return None

    def _pykey(self, m, step, read=False):
        key = [dec(k) if isinstance(k, dict) else k for k in step["key"]]
        if len(key) != m.order:
            return None
        for d, k in enumerate(key):
            if isinstance(k, slice):
                if k.step is not None or (k.start is not None and not (0 <= k.start < m.shape[d])) or (k.stop is not None and not (0 < k.stop <= m.shape[d])):
                    return None
                n = len(range(m.shape[d])[k])
                if n == 0 or (n > 16 and not read):
                    return None
            elif not (isinstance(k, int) and 0 <= k < m.shape[d]):
                return None
        return key

    def _hs_r_region(self, w, step, i, res):
        m, S = w["m"], w["S"]
        key = self._pykey(m, step, read=True)
        if key is None or all(isinstance(k, int) for k in key):
            return "skip"
        if any(m.shape[d] > 8 and (isinstance(k, slice) or m.shape[d] > 2**25 + 2) for d, k in enumerate(key)):
            return "skip"  # would make the library materialise the extent (see gen_step)
        got, v = self._call(lambda: S[tuple(key)], f"S[region {key}]", "hs_r_region", i)
        if v is not None:
            return v
        ranges = [range(m.shape[d])[k] if isinstance(k, slice) else None for d, k in enumerate(key)]
        rshape = tuple(len(r) for r in ranges if r is not None)
        want: Dict[tuple, float] = {}
        for pos, x in m.cells.items():
            if x == 0:
                continue
            idx = []
            for d, k in enumerate(key):
                if ranges[d] is None:
                    if pos[d] != k:
                        break
                elif pos[d] in ranges[d]:
                    idx.append(ranges[d].index(pos[d]))
                else:
                    break
            else:
                want[tuple(idx)] = x
        if not isinstance(got, self.ttb.sptensor):
            return self._viol("read_returns_model_value", "hs_r_region", i, f"S[region {key}] returned a {type(got).__name__}")
        if tuple(int(s) for s in got.shape) != rshape:
            return self._viol("read_returns_model_value", "hs_r_region", i, f"S[region {key}] has shape {got.shape}, expected {rshape}")
        have = {tuple(int(x) for x in r): float(x) for r, x in zip(np.asarray(got.subs).reshape(-1, len(rshape)).tolist(), np.asarray(got.vals).reshape(-1).tolist())} if np.asarray(got.vals).size else {}
        if have != want:
            return self._viol("read_returns_model_value", "hs_r_region", i, f"S[region {key}] returned entries {sorted(have.items())}, model says {sorted(want.items())}")
        res.bump("reads_checked")
        return None

    def _hs_w_region(self, w, step, i, res):
        m, S = w["m"], w["S"]
        key = self._pykey(m, step)
        if key is None:
            return "skip"
        rhs = step["rhs"]
        lists, kept = m.region_lists(key)
        rshape = [len(lists[d]) for d in kept]
        if rhs["kind"] == "tensor":
            if not kept or list(rhs["shape"]) != rshape or len(rhs["vals_f"]) != int(np.prod(rshape)):
                return "skip"
            arr = np.array(rhs["vals_f"], dtype=float).reshape(tuple(rshape), order="F")
            value = self.ttb.tensor(np.asfortranarray(arr)).to_sptensor()

            def do():
                S[tuple(key)] = value

            what = f"S[region {key}] = sparse tensor {arr.tolist()}"
        else:
            arr = None

            def do():
                S[tuple(key)] = rhs["val"]

            what = f"S[region {key}] = {rhs['val']}"
        _, v = self._call(do, what, "hs_w_region", i)
        if v is not None:
            return v
        for idx in itertools.product(*[range(n) for n in rshape]):
            pos = [lists[d][0] for d in range(m.order)]
            for j, d in enumerate(kept):
                pos[d] = lists[d][idx[j]]
            m.set(tuple(pos), float(arr[idx]) if arr is not None else rhs["val"])
        res.bump("writes_effective")
        return None
