"""Entry point (kept tiny so nothing important lives in ``__main__``)."""
import sys

from sim.driver import main

if __name__ == "__main__":
    sys.exit(main(sys.argv))
