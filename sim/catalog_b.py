"""Operation catalogue of engine B (DESIGN.md Appendix A): public operations of the seven
classes, constructors with both copy flags, module-level functions and algorithm entry points,
plus the malformed-request recipes of C19.

Every step is recorded concretely: ``{"op": name, "operands": [heap ids], "k": [kinds], ...params}``.
"""

from __future__ import annotations

import itertools
from typing import Any, Callable, Dict, List, Optional, Tuple

import numpy as np

from .kernel import dec, enc, weighted


class OpSpec:
    def __init__(self, name, recv, gen, run, inplace=False, allowed=(), known_alias=None, known_mutates=None, weight=1.0, check=None):
        self.name = name
        self.recv = recv  # kind of the first operand (or None for module-level creators)
        self.gen = gen
        self.run = run
        self.inplace = inplace
        self.allowed = allowed  # operand indices the result may share memory with (tuple or callable(step))
        self.known_alias = known_alias
        self.known_mutates = known_mutates
        self.weight = weight
        self.check = check

    def applicable(self, heap, ids, step) -> bool:
        kinds = step.get("k")
        if kinds is not None and [heap.kinds[i] for i in ids] != list(kinds):
            return False
        if self.check is not None:
            try:
                return bool(self.check([heap.objs[i] for i in ids], step))
            except Exception:  # noqa: BLE001
                return False
        return True


class BadSpec:
    def __init__(self, name, recv, gen, run, malformed, known=None, weight=1.0):
        self.name = name
        self.recv = recv
        self.gen = gen
        self.run = run
        self.malformed = malformed  # predicate(operands, step): the request really violates the precondition
        self.known = known
        self.weight = weight

    def applicable(self, heap, ids, step) -> bool:
        kinds = step.get("k")
        if kinds is not None and [heap.kinds[i] for i in ids] != list(kinds):
            return False
        try:
            return bool(self.malformed([heap.objs[i] for i in ids], step))
        except Exception:  # noqa: BLE001
            return False


def _plain(x):
    """Plain JSON-able python data (numpy scalars -> python scalars, tuples -> lists)."""
    if isinstance(x, dict):
        return {str(k): _plain(v) for k, v in x.items()}
    if isinstance(x, (list, tuple)):
        return [_plain(v) for v in x]
    if isinstance(x, np.integer):
        return int(x)
    if isinstance(x, np.floating):
        return float(x)
    if isinstance(x, np.bool_):
        return bool(x)
    return x


def rnd(g, lo=-2.0, hi=2.0):
    v = round(g.uniform(lo, hi), 3)
    return v if v != 0 else 0.5


def rand_array(g, shape, lo=-2.0, hi=2.0, zeros=0.0):
    n = int(np.prod(shape)) if len(shape) else 1
    vals = [0.0 if g.random() < zeros else rnd(g, lo, hi) for _ in range(n)]
    return np.array(vals, dtype=float).reshape(shape, order="F")


class Catalog:
    def __init__(self, eng):
        self.eng = eng
        self.ttb = eng.ttb
        self.ops: Dict[str, OpSpec] = {}
        self.bad: Dict[str, BadSpec] = {}
        from . import catalog_b_ops, catalog_b_bad

        catalog_b_ops.register(self)
        catalog_b_bad.register(self)

    # ---- registration helpers
    def op(self, name, recv, gen, run, **kw):
        self.ops[name] = OpSpec(name, recv, gen, run, **kw)

    def badop(self, name, recv, gen, run, malformed, **kw):
        self.bad["bad:" + name] = BadSpec("bad:" + name, recv, gen, run, malformed, **kw)

    # ---- shape families and initial population
    def families(self, sw):
        a = [sw.randint(2, 3) for _ in range(3)]
        b = [sw.randint(2, 3) for _ in range(sw.choice([2, 3]))]
        if sw.random() < 0.3:
            b[sw.randrange(len(b))] = 1  # a singleton mode
        r = sw.random()
        if r < 0.08:
            b = [sw.randint(2, 4)]  # a 1-way family
        elif r < 0.16:
            b = [2, sw.randint(1, 2), 2, sw.randint(2, 3)]  # a 4-way family
        if b == a:
            b[0] = 5 - b[0]
        return [a, b]

    def populate(self, g, fam) -> List[Dict[str, Any]]:
        steps: List[Dict[str, Any]] = []
        for shape in fam:
            steps.append(self.step_new_tensor(g, shape))
            steps.append(self.step_new_sptensor(g, shape))
            steps.append(self.step_new_ktensor(g, shape, g.randint(1, 2)))
        steps.append(self.step_new_ttensor(g, fam[0]))
        return steps

    def step_new_tensor(self, g, shape, zeros=0.2):
        st = {"op": "new_tensor", "operands": [], "k": [], "shape": list(shape), "data": enc(rand_array(g, shape, zeros=zeros)), "copy": g.random() < 0.7, "order": g.choice(["F", "F", "C"])}
        if g.random() < 0.12:
            st["data"] = enc(np.round(rand_array(g, shape, -4, 4, zeros=zeros)).astype(np.int64))
            st["dtype"] = "int64"
        return st

    def step_new_sptensor(self, g, shape):
        size = int(np.prod(shape))
        nnz = g.randint(0, min(size, 5))
        lin = g.sample(range(size), nnz)
        subs = [list(int(v) for v in np.unravel_index(k, shape, order="F")) for k in lin]
        g.shuffle(subs)
        st = {"op": "new_sptensor", "operands": [], "k": [], "shape": list(shape), "subs": subs, "vals": [rnd(g) for _ in subs], "copy": g.random() < 0.7}
        if g.random() < 0.12:
            st["vals"] = [float(g.choice([-3, -2, -1, 1, 2, 3, 5])) for _ in subs]
            st["dtype"] = "int64"
        return st

    def step_new_ktensor(self, g, shape, r, nonneg=False):
        lo = 0.05 if nonneg else -1.0
        weights = [rnd(g, 0.5, 2.0) for _ in range(r)]
        u = g.random()
        if u < 0.12:
            weights = [1.0] * r  # the default weights
        elif u < 0.3 and not nonneg:
            weights = [g.choice([1.0, -1.0]) for _ in range(r)]  # unit magnitude, mixed sign (what K1 - K2 produces)
        return {
            "op": "new_ktensor",
            "operands": [],
            "k": [],
            "shape": list(shape),
            "weights": weights,
            "factors": [enc(rand_array(g, (s, r), lo, 1.0)) for s in shape],
            "copy": g.random() < 0.7,
        }

    def step_new_ttensor(self, g, shape):
        ranks = [g.randint(1, s) for s in shape]
        return {
            "op": "new_ttensor",
            "operands": [],
            "k": [],
            "shape": list(shape),
            "core": enc(rand_array(g, ranks)),
            "factors": [enc(rand_array(g, (s, r))) for s, r in zip(shape, ranks)],
            "copy": g.random() < 0.7,
        }

    def step_new_array(self, arr, out_id=None):
        st = {"op": "new_array", "operands": [], "k": [], "data": enc(np.asarray(arr))}
        if out_id is not None:
            st["out"] = [out_id]
        return st

    # ---- generation
    def _pick_spec(self, g, table):
        names = sorted(table)
        return table[weighted(g, [(n, table[n].weight) for n in names])]

    def gen_op(self, g, heap) -> Optional[List[Dict[str, Any]]]:
        spec = self._pick_spec(g, self.ops)
        return self._gen_with(spec, g, heap)

    def gen_bad(self, g, heap) -> Optional[List[Dict[str, Any]]]:
        spec = self._pick_spec(g, self.bad)
        return self._gen_with(spec, g, heap)

    def _gen_with(self, spec, g, heap):
        recv = None
        if spec.recv is not None:
            ids = heap.ids(spec.recv)
            if not ids:
                return None
            recv = g.choice(ids)
        ctx = GenCtx(self, g, heap)
        try:
            out = spec.gen(ctx, recv)
        except (ValueError, IndexError):
            # the generator has no request of this kind for the present heap (e.g. a 1-element tensor)
            return None
        if out is None:
            return None
        step = _plain(dict(out))
        step["op"] = spec.name
        ops = [int(x) for x in step.get("operands", [])]
        step["operands"] = ops
        kinds = []
        for o in ops:
            if o in heap.kinds:
                kinds.append(heap.kinds[o])
            else:
                kinds.append(ctx.pending_kinds.get(o, "A"))
        step["k"] = kinds
        return [_plain(p) for p in ctx.pre] + [step]

    # ---- results
    def split_result(self, spec, result, operands, step) -> List[Tuple[Any, Tuple[int, ...]]]:
        allowed = spec.allowed(step) if callable(spec.allowed) else tuple(spec.allowed)
        ttb = self.ttb
        if isinstance(result, tuple) and getattr(spec, "tuple_parts", None) is None:
            # algorithm results (model, initial guess, info): the initial guess may be the caller's own object
            parts = []
            for k, r in enumerate(result):
                if isinstance(r, dict):
                    # the information dictionary: its arrays (echoed parameters, traces) are judged for sharing with
                    # live objects, but not kept on the heap
                    for arr in _arrays_in(r):
                        parts.append((JudgeOnly(arr), ()))
                    continue
                parts.append((r, allowed if k == 0 else tuple(step.get("guess_operands", ())) + allowed))
            return parts
        return [(result, allowed)]

    def wanted(self, heap, obj) -> bool:
        return True


class JudgeOnly:
    """A part of a result that is judged (independent of every live object) but not kept for later steps."""

    def __init__(self, arr):
        self.arr = arr


def _arrays_in(x, depth=0):
    if isinstance(x, np.ndarray):
        if x.dtype.kind in "biuf" and x.size:
            yield x
    elif isinstance(x, dict) and depth < 4:
        for v in x.values():
            yield from _arrays_in(v, depth + 1)
    elif isinstance(x, (list, tuple)) and depth < 4:
        for v in x:
            yield from _arrays_in(v, depth + 1)


class GenCtx:
    """What an op generator may use: the heap, the random stream, and fresh arrays."""

    def __init__(self, cat: Catalog, g, heap):
        self.cat = cat
        self.g = g
        self.heap = heap
        self.pre: List[Dict[str, Any]] = []
        self.pending_kinds: Dict[int, str] = {}
        self._next = heap.next_id

    def obj(self, i):
        return self.heap.objs[i]

    def heap_families(self):
        return getattr(self.heap, "families", None) or [[2, 3, 2], [3, 2]]

    def fresh(self, arr) -> int:
        """Schedule a new loose array on the heap; returns the id it will get."""
        i = self._next
        self._next += 1
        self.pre.append(self.cat.step_new_array(arr, i))
        self.pending_kinds[i] = "A"
        return i

    def fresh_coo(self, arr=None, triplets=None) -> int:
        """Schedule a new loose scipy COO matrix on the heap; returns the id it will get.
        ``triplets`` = dict(data, row, col, shape): stored in exactly that (possibly unsorted) order."""
        i = self._next
        self._next += 1
        st = {"op": "new_coo", "operands": [], "k": [], "data": None if arr is None else enc(np.asarray(arr)), "out": [i]}
        if triplets is not None:
            st["triplets"] = triplets
        self.pre.append(st)
        self.pending_kinds[i] = "SP"
        return i

    def pick(self, kind, pred=None, exclude=()):
        ids = [i for i in self.heap.ids(kind, pred) if i not in exclude]
        return self.g.choice(ids) if ids else None

    def same_shape(self, kind, shape, exclude=()):
        return self.pick(kind, lambda o: tuple(o.shape) == tuple(shape), exclude)
