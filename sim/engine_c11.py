"""Engine C / C11 -- CP-APR under a simulated clock.

One run = one sampled problem (count tensor, rank, non-negative guess, algorithm, option
set) and a *complete enumeration of deadline positions*: the simulated clock jumps past
``stoptime`` at every outer-iteration boundary in turn, plus sampled other clock kinds
(backward jump, frozen clock, elapsed == stoptime, stoptime = 0).  The C11 contract is
checked at every return, and a run cut by the deadline after j iterations must equal
the run limited to ``maxiters = j``.
"""

from __future__ import annotations

import itertools
from typing import Any, Dict, List, Optional

import numpy as np

from .kernel import RunResult, Streams, Violation, arr_digest, dec, enc, weighted
from .world import SimClock, World

PQNR_KNOWN_MSG = "ERROR: L-BFGS first iterate is bad"


def kfull(weights: np.ndarray, factors: List[np.ndarray]) -> np.ndarray:
    """Dense array denoted by a Kruskal tensor (independent of pyttb)."""
    shape = tuple(f.shape[0] for f in factors)
    out = np.zeros(shape)
    for r in range(len(weights)):
        comp = np.array(float(weights[r]))
        for f in factors:
            comp = np.multiply.outer(comp, f[:, r])
        out = out + comp
    return out


def loglik(x: np.ndarray, m: np.ndarray) -> float:
    """Poisson log-likelihood sum(x log m - m) with 0*log(0) = 0."""
    pos = x > 0
    with np.errstate(divide="ignore", invalid="ignore"):
        s = float(np.sum(x[pos] * np.log(m[pos]))) - float(np.sum(m))
    return s


class EngineC11:
    name = "solver-world/cp_apr"

    def __init__(self, prop: str, steer: List[str]):
        import pyttb as ttb

        self.ttb = ttb
        self.prop = prop
        self.steer = set(steer)

    # ------------------------------------------------------------- generation
    def run(self, run_seed: int, tier: str) -> RunResult:
        st = Streams(run_seed)
        sw = st.get("swarm")
        g = st.get("gen")
        res = RunResult()
        N = weighted(sw, [(2, 4), (3, 5), (4, 1)])
        shape = [sw.randint(1, 4) for _ in range(N)]
        if sw.random() < 0.2:
            shape = [sw.randint(2, 3)] * N  # cubical
        if int(np.prod(shape)) < 2:
            shape[0] = 2
        long_mode = sw.random() < 0.06
        if long_mode:
            # one long mode (row counts beyond 128 / 256 matter to index arithmetic in narrow integer types)
            shape = [min(s, 3) for s in shape]
            shape[sw.randrange(N)] = sw.choice([90, 129, 140, 200, 256])
        rank = weighted(sw, [(1, 2), (2, 4), (3, 2)])
        sparse = sw.random() < 0.5
        # count data with structure: empty slices / all-zero fibres
        x = np.zeros(shape)
        density = sw.choice([0.15, 0.4, 0.7, 1.0])
        for idx in itertools.product(*[range(s) for s in shape]):
            if g.random() < density:
                x[idx] = g.choice([1, 1, 1, 2, 2, 3, 5, 9])
        if sw.random() < 0.4:  # an empty slice
            d = sw.randrange(N)
            sl = [slice(None)] * N
            sl[d] = sw.randrange(shape[d])
            x[tuple(sl)] = 0
        if not x.any():
            x[tuple(0 for _ in shape)] = g.choice([1, 2, 4])
        # guess
        guess_kind = weighted(sw, [("explicit", 6), ("zero_rows", 3), ("zeros_sprinkled", 2), ("random", 2)])
        weights = None
        factors = None
        if guess_kind != "random":
            weights = [round(g.uniform(0.1, 3.0), 3) for _ in range(rank)]
            factors = []
            for s in shape:
                f = np.array([[round(g.uniform(0.05, 1.0), 3) for _ in range(rank)] for _ in range(s)])
                factors.append(f)
            if guess_kind == "zero_rows":
                d = g.randrange(N)
                factors[d][g.randrange(shape[d]), :] = 0.0
            if guess_kind == "zeros_sprinkled":
                for f in factors:
                    for i in range(f.shape[0]):
                        for r in range(rank):
                            if g.random() < 0.2:
                                f[i, r] = 0.0
                    for r in range(rank):  # keep every column non-zero
                        if not f[:, r].any():
                            f[g.randrange(f.shape[0]), r] = 0.5
        alg = weighted(sw, [("mu", 4), ("pdnr", 4), ("pqnr", 2)])
        opts = {
            "algorithm": alg,
            "maxiters": sw.randint(1, 8),
            "maxinneriters": sw.choice([1, 2, 5, 10]),
            "stoptol": sw.choice([0.0, 1e-4, 1e-2]),
            "printitn": sw.choice([0, 0, 1, 3]),
            "printinneritn": sw.choice([0, 0, 1]),
        }
        if long_mode:
            opts["maxiters"] = sw.randint(1, 2)  # keeps the cost of the per-row subproblems of a long mode bounded
            opts["maxinneriters"] = sw.choice([1, 2])
        if alg == "mu":
            opts["kappa"] = sw.choice([0.01, 0.1, 1e-3])
            opts["kappatol"] = sw.choice([1e-10, 1e-6])
        else:
            opts["epsActive"] = sw.choice([1e-8, 1e-4])
            opts["precompinds"] = sw.choice([True, False])
            if alg == "pdnr":
                opts["mu0"] = sw.choice([1e-5, 1e-2])
                opts["inexact"] = sw.choice([True, False])
            else:
                opts["lbfgsMem"] = sw.choice([1, 2, 3, 5])
        shared = factors is not None and len(set(shape)) == 1 and sw.random() < 0.5
        if shared:
            # a guess whose modes are all the same array object (legal for cubical data, built without copying)
            factors = [factors[0]] * N
        res.init = {
            "shape": shape,
            "shared_guess": shared,
            "x": enc(x),
            "sparse": sparse,
            "sparse_perm_seed": sw.randrange(1000),
            # type of the stored subscripts of sparse data (the constructor keeps what it is given)
            "subs_dtype": sw.choice(["int64", "int64", "int64", "int32", "uint16", "uint8"]),
            "rank": rank,
            "guess": None if factors is None else {"weights": weights, "factors": [enc(f) for f in factors]},
            "np_seed": st.u32("np"),
            "stoptime": sw.choice([10.0, 1.0, 1e3]),
            "int_storage": sw.random() < 0.3,
            "tick": sw.choice([1e-4, 1e-2, 0.3]),
            "opts": opts,
        }
        big = sw.random() < 0.007
        if big:
            # a sparse tensor with more than 2**15 stored entries (block sizes inside the library), one short solve
            res.init.update({"x": None, "x_big": {"shape": [40, 40, sw.choice([22, 24, 30])], "seed": sw.randrange(10**6), "density": 0.95}, "sparse": True, "shape": None, "guess": None, "shared_guess": False, "rank": 2})
            res.init["x_big"]["shape"] = list(res.init["x_big"]["shape"])
            res.init["shape"] = res.init["x_big"]["shape"]
            res.init["opts"] = dict(res.init["opts"], maxiters=1, maxinneriters=1, printitn=0, printinneritn=0)
        prob = self._problem(res.init)
        if big:
            step = {"op": "baseline"}
            res.steps.append(step)
            self._exec(prob, step, 0, res)
            res.bump("probe:more_than_2**15_stored_entries")
            return self._finish(res)
        # step 0: baseline decides how many deadline positions exist
        step = {"op": "baseline"}
        res.steps.append(step)
        it0 = self._exec(prob, step, 0, res)
        if it0 is None:
            return self._finish(res)
        steps = [{"op": "deadline", "j": j} for j in range(1, it0 + 1)]
        kinds = ["backward", "freeze", "equal", "zero_stoptime", "neg_tick"]
        sw.shuffle(kinds)
        for k in kinds[: sw.randint(1, 3)]:
            steps.append({"op": "clock_kind", "kind": k, "at": g.randint(1, max(1, it0))})
        if sw.random() < 0.5:
            steps.append({"op": "edited_data", "pick": g.randrange(10**6)})
        for step in steps:
            res.steps.append(step)
            if self._exec(prob, step, len(res.steps) - 1, res) is None:
                break
        return self._finish(res)

    def _finish(self, res):
        res.nontrivial = res.stats.get("fault:deadline_cut", 0) >= 1 or res.stats.get("solves", 0) >= 3
        return res

    def replay(self, rec) -> RunResult:
        res = RunResult()
        res.init = rec["init"]
        prob = self._problem(rec["init"])
        for i, step in enumerate(rec["steps"]):
            res.steps.append(step)
            if self._exec(prob, step, i, res) is None:
                break
        return self._finish(res)

    # ---------------------------------------------------------------- problem
    def _problem(self, init) -> Dict[str, Any]:
        ttb = self.ttb
        if init.get("x_big"):
            # tens of thousands of cells: regenerated from its recipe rather than stored cell by cell
            b = init["x_big"]
            rs0 = np.random.RandomState(b["seed"])
            x = ((rs0.random_sample(tuple(b["shape"])) < b["density"]) * rs0.randint(1, 6, size=tuple(b["shape"]))).astype(float)
        else:
            x = np.asarray(dec(init["x"]), dtype=float)
        store = np.int64 if init.get("int_storage") else float  # counts may well be held in integer arrays
        if init["sparse"]:
            subs = np.argwhere(x != 0)
            rs = np.random.RandomState(init["sparse_perm_seed"])
            perm = rs.permutation(subs.shape[0])
            subs = subs[perm]
            vals = x[tuple(subs.T)].reshape(-1, 1).astype(store)
            sd = init.get("subs_dtype", "int64")
            if max(x.shape) - 1 <= np.iinfo(sd).max:
                subs = subs.astype(sd)

            def make_data():
                return ttb.sptensor(subs.copy(), vals.copy(), tuple(x.shape))
        else:
            def make_data():
                return ttb.tensor(np.asfortranarray(x.copy().astype(store)))

        guess = init["guess"]
        if guess is not None:
            gw = np.array(guess["weights"], dtype=float)
            gf = [np.asarray(dec(f), dtype=float) for f in guess["factors"]]

            def make_guess():
                if init.get("shared_guess"):
                    a = gf[0].copy()
                    return ttb.ktensor([a] * len(gf), gw.copy(), copy=False)
                return ttb.ktensor([f.copy() for f in gf], gw.copy())
        else:
            gw, gf = None, None

            def make_guess():
                return "random"

        return {"x": x, "make_data": make_data, "make_guess": make_guess, "gw": gw, "gf": gf, "init": init}

    def _solve(self, prob, clock_script, stoptime, maxiters, data=None):
        """One call of cp_apr in a fresh world; returns dict describing the outcome."""
        ttb = self.ttb
        init = prob["init"]
        if data is None:
            data = prob["make_data"]()
        guess = prob["make_guess"]()
        opts = dict(init["opts"])
        opts["maxiters"] = maxiters
        clock = SimClock(clock_script)
        out: Dict[str, Any] = {"clock": clock}
        with World(clock=clock, np_seed=init["np_seed"]) as w:
            try:
                M, Minit, info = ttb.cp_apr(data, init["rank"], init=guess, stoptime=stoptime, **opts)
                out.update(M=M, Minit=Minit, info=info)
            except AssertionError as e:
                out["error"] = e
            except Exception as e:  # noqa: BLE001
                out["error"] = e
        out["stdout"] = w.stdout.getvalue()
        out["data"] = data
        out["guess"] = guess
        return out

    # -------------------------------------------------------------- contract
    def _contract(self, prob, out, maxiters, i, op) -> Optional[Violation]:
        ttb = self.ttb
        init = prob["init"]
        V = lambda oracle, detail: Violation("C11", oracle, op + ":" + init["opts"]["algorithm"], i, detail)  # noqa: E731
        x = prob["x"]
        if "error" in out:
            e = out["error"]
            return V("returns_on_admissible_input", f"cp_apr raised {type(e).__name__}: {e}")
        M, Minit, info = out["M"], out["Minit"], out["info"]
        if not isinstance(M, ttb.ktensor):
            return V("result_is_kruskal_of_requested_size", f"result is {type(M).__name__}")
        if M.ncomponents != init["rank"] or tuple(M.shape) != tuple(x.shape):
            return V("result_is_kruskal_of_requested_size", f"rank {M.ncomponents} shape {M.shape}, requested rank {init['rank']} shape {x.shape}")
        w = np.asarray(M.weights, dtype=float)
        fs = [np.asarray(f, dtype=float) for f in M.factor_matrices]
        if not np.all(w >= 0) or not all(np.all(f >= 0) for f in fs):
            return V("result_nonnegative", f"weights {w.tolist()} min factor entries {[float(np.min(f)) for f in fs]}")
        m = kfull(w, fs)
        mine = loglik(x, m)
        obj = float(info["obj"])
        if np.isfinite(obj) and np.isfinite(mine):
            agree = abs(obj - mine) <= 1e-9 * (1.0 + abs(mine))
        else:
            agree = obj == mine  # -inf (model zero where a count is positive) must be reported as -inf
        if not agree:
            return V("objective_equals_recomputed_loglikelihood", f"reported obj {obj!r}, recomputed {mine!r}")
        kkt = np.asarray(info["kktViolations"], dtype=float).reshape(-1)
        iters = out["clock"].n_reads - 2
        if kkt.shape[0] != iters:
            return V("one_kkt_entry_per_outer_iteration", f"{kkt.shape[0]} KKT entries for {iters} outer iterations (clock reads {out['clock'].n_reads})")
        if not np.all(kkt >= 0):
            return V("kkt_violations_nonnegative", f"kktViolations = {kkt.tolist()}")
        if iters > maxiters or iters < 1:
            return V("iteration_limit_respected", f"{iters} outer iterations with maxiters={maxiters}")
        # at least as likely as the starting guess
        Mi = Minit
        start = loglik(x, kfull(np.asarray(Mi.weights, dtype=float), [np.asarray(f, dtype=float) for f in Mi.factor_matrices]))
        # tolerance: PDNR/PQNR deliberately write 1e-8 into all-zero rows of the guess (a documented safeguard
        # against log(0)); where the data are zero too this costs a few 1e-8 of likelihood (soak: 1.9e-8)
        if np.isfinite(start) and not (mine >= start - 1e-6 * (1.0 + abs(start))):
            return V("at_least_as_likely_as_start", f"log-likelihood of result {mine!r} < of starting guess {start!r}")
        # data and guess untouched
        d = out["data"]
        if init["sparse"]:
            got = np.zeros(x.shape)
            if d.subs.size:
                got[tuple(np.asarray(d.subs).T)] = np.asarray(d.vals).reshape(-1)
            if tuple(d.shape) != tuple(x.shape) or not np.array_equal(got, x):
                return V("data_not_modified", "sparse data tensor changed")
        elif not np.array_equal(d.data, x):
            return V("data_not_modified", "dense data tensor changed")
        if prob["gf"] is not None:
            gq = out["guess"]
            if not np.array_equal(gq.weights, prob["gw"]) or any(
                not np.array_equal(a, b) for a, b in zip(gq.factor_matrices, prob["gf"])
            ):
                diffs = [np.argwhere(a != b).tolist() for a, b in zip(gq.factor_matrices, prob["gf"])]
                return V("guess_not_modified", f"caller's initial guess changed; weights {np.asarray(gq.weights).tolist()} vs {prob['gw'].tolist()}; factor entries changed at {diffs}")
        return None

    @staticmethod
    def _same_result(a, b) -> Optional[str]:
        """Two runs that did the same arithmetic: equal up to rounding. (Bit identity is the rule, but numpy/BLAS
        kernels choose their path by the alignment of freshly allocated buffers, so two identical calls in one process
        may differ in the last bits -- seen in the C18 soak, DESIGN.md section 11. Anything above 1e-9 relative is
        reported.)"""

        def close(x, y):
            x = np.asarray(x, dtype=float)
            y = np.asarray(y, dtype=float)
            if x.shape != y.shape:
                return False
            if np.array_equal(x, y, equal_nan=True):
                return True
            with np.errstate(all="ignore"):
                return bool(np.all(np.isfinite(x) == np.isfinite(y)) and np.all(np.abs(x - y)[np.isfinite(x)] <= 1e-9 * (1.0 + np.abs(x)[np.isfinite(x)])))

        Ma, Mb = a["M"], b["M"]
        if not close(Ma.weights, Mb.weights):
            return f"weights {np.asarray(Ma.weights).tolist()} vs {np.asarray(Mb.weights).tolist()}"
        for n, (fa, fb) in enumerate(zip(Ma.factor_matrices, Mb.factor_matrices)):
            if not close(fa, fb):
                return f"factor {n} differs by {float(np.max(np.abs(fa - fb)))}"
        oa, ob = float(a["info"]["obj"]), float(b["info"]["obj"])
        if not (oa == ob or (np.isnan(oa) and np.isnan(ob)) or close(oa, ob)):
            return f"obj {oa!r} vs {ob!r}"
        ka = np.asarray(a["info"]["kktViolations"]).reshape(-1)
        kb = np.asarray(b["info"]["kktViolations"]).reshape(-1)
        if ka.shape != kb.shape or not close(ka, kb):
            return f"kktViolations {ka.tolist()} vs {kb.tolist()}"
        return None

    def _known_abort(self, out) -> bool:
        e = out.get("error")
        return isinstance(e, AssertionError) and str(e) == PQNR_KNOWN_MSG

    # ---------------------------------------------------------------- steps
    def _exec(self, prob, step, i, res: RunResult):
        """Returns iteration count of the step's main solve, or None when the run ends."""
        init = prob["init"]
        alg = init["opts"]["algorithm"]
        maxiters = init["opts"]["maxiters"]
        stoptime = init["stoptime"]
        tick = init["tick"]
        op = step["op"]
        res.bump("steps")
        res.bump("op:" + op)
        nominal = {"t0": 1000.0, "tick": tick * stoptime / (maxiters + 3) / 10.0}

        def solve(script, st=stoptime, mi=maxiters):
            res.bump("solves")
            out = self._solve(prob, script, st, mi)
            res.sim_seconds += out["clock"].span()
            return out

        def solve_with(script, data, p=None):
            res.bump("solves")
            out = self._solve(p or prob, script, stoptime, maxiters, data=data)
            res.sim_seconds += out["clock"].span()
            return out

        def finish(v):
            if v is not None:
                res.violation = v
                res.events.append([i, op, "violation", v.oracle])
                return None
            return True

        base = solve(nominal)
        if self._known_abort(base):
            res.bump("probe:pqnr_first_iterate_abort")
            res.events.append([i, op, "known_abort"])
            return None
        v = self._contract(prob, base, maxiters, i, op)
        if v is not None:
            return finish(v)
        it0 = base["clock"].n_reads - 2
        ev: List[Any] = [i, op, it0, arr_digest(np.asarray(base["M"].weights))]
        from .kernel import H

        res.states.add(H(alg, len(init["shape"]), init["sparse"], init["rank"], init["guess"] is None, it0, op, step.get("j"), step.get("kind"), init["opts"].get("precompinds"), init["opts"].get("inexact")) & 0xFFFFFFFF)
        if op == "baseline":
            if it0 < maxiters:
                res.bump("probe:converged_before_maxiters")
            if init["guess"] is None:
                res.bump("probe:random_guess")
            res.events.append(ev)
            return it0
        if op == "deadline":
            j = step["j"]
            if j < 1 or j > it0:
                res.events.append([i, op, "skip"])
                res.bump("skipped")
                return it0
            script = dict(nominal)
            script["events"] = [{"at": j, "dt": 2.0 * stoptime + 1.0}]
            cut = solve(script)
            res.bump("fault:deadline_cut")
            if j < it0:
                res.bump("probe:deadline_fired_mid_run")
            if self._known_abort(cut):
                res.bump("probe:pqnr_first_iterate_abort")
                return None
            v = self._contract(prob, cut, maxiters, i, op)
            if v is not None:
                return finish(v)
            got = cut["clock"].n_reads - 2
            if got != j:
                return finish(Violation("C11", "deadline_stops_after_current_iteration", op + ":" + alg, i, f"deadline fired at the end of iteration {j} but {got} iterations were performed (baseline {it0})"))
            cnt = solve(nominal, mi=j)
            if self._known_abort(cnt):
                return None
            v = self._contract(prob, cnt, j, i, op)
            if v is not None:
                return finish(v)
            diff = self._same_result(cut, cnt)
            if diff is not None:
                return finish(Violation("C11", "cut_by_time_equals_cut_by_count", op + ":" + alg, i, f"deadline after iteration {j} vs maxiters={j}: {diff}"))
            ev.append(j)
            res.events.append(ev)
            return it0
        if op == "clock_kind":
            kind = step["kind"]
            at = min(max(1, step.get("at", 1)), it0)
            script = dict(nominal)
            st = stoptime
            expect_same = True
            if kind == "backward":
                script["events"] = [{"at": at, "dt": -3600.0}]
            elif kind == "freeze":
                script["freeze_from"] = at
            elif kind == "neg_tick":
                script["tick"] = -abs(nominal["tick"])
            elif kind == "equal":
                # elapsed time exactly equal to stoptime at one boundary: the test is '>'
                script = {"t0": 0.0, "tick": 0.0, "events": [{"at": at, "dt": stoptime}, {"at": at + 1, "dt": -stoptime}]}
            elif kind == "zero_stoptime":
                st = 0.0
                expect_same = False
            else:
                res.bump("skipped")
                return it0
            res.bump("fault:clock_" + kind)
            alt = solve(script, st=st)
            if self._known_abort(alt):
                return None
            v = self._contract(prob, alt, maxiters, i, op)
            if v is not None:
                return finish(v)
            if expect_same:
                diff = self._same_result(base, alt)
                if diff is not None:
                    return finish(Violation("C11", "clock_without_deadline_changes_nothing", op + ":" + alg, i, f"clock kind {kind}: {diff}"))
            else:
                got = alt["clock"].n_reads - 2
                if got != 1:
                    return finish(Violation("C11", "deadline_stops_after_current_iteration", op + ":" + alg, i, f"stoptime=0 with an advancing clock performed {got} iterations"))
            ev.append(kind)
            res.events.append(ev)
            return it0
        if op == "edited_data":
            # history on the caller's data object: solve, move one count to an empty cell IN PLACE (same object,
            # same shape, same number of nonzeros), solve again. Each call must depend on the data as they are now.
            x = prob["x"]
            nzs = np.argwhere(x > 0)
            zs = np.argwhere(x == 0)
            if nzs.shape[0] < 2 or zs.shape[0] < 1:
                res.bump("skipped")
                return it0
            src = tuple(int(v) for v in nzs[step["pick"] % nzs.shape[0]])
            dst = tuple(int(v) for v in zs[(step["pick"] // 7) % zs.shape[0]])
            data = prob["make_data"]()
            first = solve_with(nominal, data)
            if self._known_abort(first):
                return None
            v = self._contract(prob, first, maxiters, i, op)
            if v is not None:
                return finish(v)
            x2 = x.copy()
            x2[dst] = x2[src]
            x2[src] = 0.0
            if init["sparse"]:
                k = int(np.where((np.asarray(data.subs) == np.array(src)).all(axis=1))[0][0])
                data.subs[k, :] = np.array(dst)
            else:
                data.data[dst] = data.data[src]
                data.data[src] = 0.0
            prob2 = dict(prob)
            prob2["x"] = x2
            second = solve_with(nominal, data)
            res.bump("fault:data_edited_in_place_between_solves")
            if self._known_abort(second):
                return None
            v = self._contract(prob2, second, maxiters, i, op)
            if v is not None:
                return finish(v)
            fresh = solve_with(nominal, data.copy(), prob2)
            if self._known_abort(fresh):
                return None
            diff = self._same_result(second, fresh)
            if diff is not None:
                return finish(Violation("C11", "solve_depends_only_on_current_data", op + ":" + alg, i, f"second solve on the edited data object vs. the same data in a new object: {diff}"))
            ev.append("edited")
            res.events.append(ev)
            return it0
        res.bump("skipped")
        return it0
