"""Engine D -- ``io-world`` (C16): export_data / import_data on a simulated ``open``.

``pyttb.export_data.open`` and ``pyttb.import_data.open`` are rebound to ``SimFS.open``,
which returns a duck-typed file over a REAL descriptor in a per-run scratch directory
(numpy's C-level ``tofile`` / ``fromfile`` insist on ``fileno()``).  Every Python-level
call (write, flush, tell, seek, readline, close) is an observable, faultable event.

A run is a history of exports / imports / foreign writes over a three-path namespace, so
files are overwritten by objects of other types and by shorter and longer contents, under a
per-run buffering configuration; fault-injecting runs raise OSError from the k-th
write / flush / seek / close.
"""

from __future__ import annotations

import errno
import math
import os
import shutil
import tempfile
from typing import Any, Dict, List, Optional

import numpy as np

from .kernel import RunResult, Streams, Violation, arr_digest, dec, enc, weighted

PATHS = ["a.tns", "b.tns", "c.tns"]


class SimFile:
    """Duck-typed text file over a real descriptor; counts and faults Python-level calls."""

    def __init__(self, fs: "SimFS", real, mode: str):
        self._fs = fs
        self._f = real
        self.mode = mode
        self.name = real.name

    def _event(self, kind: str):
        fs = self._fs
        fs.counts[kind] = fs.counts.get(kind, 0) + 1
        fs.events.append(kind)
        fault = fs.fault
        if fault and fault["call"] == kind and fs.counts[kind] == fault["at"] and not fs.fault_fired:
            fs.fault_fired = True
            raise OSError(fault.get("errno", errno.ENOSPC), os.strerror(fault.get("errno", errno.ENOSPC)))

    def write(self, s):
        self._event("write")
        return self._f.write(s)

    def flush(self):
        self._event("flush")
        return self._f.flush()

    def fileno(self):
        self._fs.counts["fileno"] = self._fs.counts.get("fileno", 0) + 1
        return self._f.fileno()

    def tell(self):
        self._event("tell")
        return self._f.tell()

    def seek(self, *a):
        self._event("seek")
        return self._f.seek(*a)

    def readline(self, *a):
        self._event("readline")
        return self._f.readline(*a)

    def read(self, *a):
        self._event("read")
        return self._f.read(*a)

    def readable(self):
        return self._f.readable()

    def writable(self):
        return self._f.writable()

    def seekable(self):
        return self._f.seekable()

    @property
    def closed(self):
        return self._f.closed

    def close(self):
        try:
            self._event("close")
        finally:
            self._f.close()

    def __enter__(self):
        return self

    def __exit__(self, *exc):
        self.close()
        return False

    def __iter__(self):
        return iter(self._f)


class SimFS:
    def __init__(self, root: str, buffering: int):
        self.root = root
        self.buffering = buffering
        self.counts: Dict[str, int] = {}
        self.events: List[str] = []
        self.fault: Optional[Dict[str, Any]] = None
        self.fault_fired = False
        self.opened = 0

    def arm(self, fault):
        self.counts = {}
        self.events = []
        self.fault = fault
        self.fault_fired = False

    def open(self, filename, mode="r", *args, **kwargs):
        self.opened += 1
        if os.path.dirname(os.path.abspath(filename)) != os.path.abspath(self.root):
            raise RuntimeError(f"simulated open outside the scratch directory: {filename}")
        kw = dict(kwargs)
        if self.buffering is not None and "buffering" not in kw and not args:
            kw["buffering"] = self.buffering
        import builtins

        real = builtins.open(filename, mode, *args, **kw)
        return SimFile(self, real, mode)


def bits(a: np.ndarray) -> np.ndarray:
    return np.ascontiguousarray(np.asarray(a, dtype=np.float64)).view(np.uint64)


def same_bits(a, b) -> bool:
    a = np.asarray(a)
    b = np.asarray(b)
    return a.shape == b.shape and a.dtype == np.float64 and b.dtype == np.float64 and np.array_equal(bits(a), bits(b))


def gen_double(g) -> float:
    k = weighted(g, [("int", 3), ("unit", 3), ("wide", 3), ("sub", 1), ("max", 1), ("digits17", 2), ("negzero", 1), ("tiny", 1)])
    if k == "int":
        return float(g.randint(-9, 9)) or 1.0
    if k == "unit":
        return g.uniform(-1.0, 1.0) or 0.5
    if k == "wide":
        return math.ldexp(g.uniform(0.5, 1.0) * g.choice([-1, 1]), g.randint(-1020, 1023))
    if k == "sub":
        return math.ldexp(g.uniform(0.5, 1.0), g.randint(-1074, -1023)) or 5e-324
    if k == "max":
        return g.choice([1.7976931348623157e308, -1.7976931348623157e308, 2.2250738585072014e-308, 5e-324])
    if k == "digits17":
        return g.choice([0.1 + 0.2, 1.0 / 3.0, 2.0 / 3.0, 1e22 + 1e6, 0.30000000000000004, 9007199254740993.0, 1.0000000000000002])
    if k == "negzero":
        return -0.0
    return g.uniform(-1.0, 1.0) * 1e-300


class EngineD:
    name = "io-world"

    def __init__(self, prop: str, steer: List[str]):
        import importlib
        import types

        import pyttb as ttb

        # NB: ``pyttb.export_data`` the attribute is the *function* (it shadows the submodule)
        self.ttb = ttb
        self.exp_mod = importlib.import_module("pyttb.export_data")
        self.imp_mod = importlib.import_module("pyttb.import_data")
        assert isinstance(self.exp_mod, types.ModuleType) and isinstance(self.imp_mod, types.ModuleType)
        self.prop = prop
        self.steer = set(steer)

    # ------------------------------------------------------------- generation
    def _gen_obj(self, g) -> Dict[str, Any]:
        kind = weighted(g, [("tensor", 3), ("sptensor", 3), ("ktensor", 3), ("matrix", 2)])
        if kind in ("tensor", "matrix") and g.random() < 0.04:
            # a large dense object (file writers tend to work block-wise): cheap values, many of them
            if kind == "tensor":
                shape = g.choice([[21, 21, 21], [1, 9000], [130, 70], [17, 5, 110]])
            else:
                shape = g.choice([[90, 91], [1, 8200], [8193, 1], [3, 2741]])
            n = int(np.prod(shape))
            base = gen_double(g)
            data = (np.arange(n, dtype=float) * 0.001953125 + base).reshape(shape, order="F")
            if not np.all(np.isfinite(data)):
                data = (np.arange(n, dtype=float) * 0.001953125 + 1.5).reshape(shape, order="F")
            return {"kind": kind, "shape": shape, "data": enc(data), "order": g.choice(["F", "C"])}
        if kind == "tensor":
            N = g.randint(1, 4)
            shape = [g.choice([1, 1, 2, 3, 4]) for _ in range(N)]
            data = np.array([gen_double(g) if g.random() < 0.9 else 0.0 for _ in range(int(np.prod(shape)))]).reshape(shape, order="F")
            return {"kind": kind, "shape": shape, "data": enc(data), "order": g.choice(["F", "C"])}
        if kind == "sptensor" and g.random() < 0.012:
            # thousands of stored entries (writers tend to switch to block-wise output), some of them on a very long mode;
            # regenerated from this recipe rather than stored row by row
            return {"kind": kind, "shape": [g.choice([2**62, 2**55 + 3, 7000]), 3], "subs": None, "vals": None, "many": {"n": g.choice([4095, 4096, 4097, 5000, 8200]), "step": g.choice([1, 7, 1023])}}
        if kind == "sptensor" and g.random() < 0.12:
            # a very long mode: subscripts that no double can hold exactly
            N = g.randint(1, 3)
            shape = [g.choice([2**62, 2**55 + 3, 3, 5]) for _ in range(N)]
            shape[g.randrange(N)] = g.choice([2**62, 2**55 + 3])
            rows = set()
            for _ in range(g.randint(1, 3)):
                rows.add(tuple((s - 1 - g.randint(0, 5)) if (s > 10 and g.random() < 0.7) else g.randrange(min(s, 5)) for s in shape))
            subs = [list(r) for r in sorted(rows)]
            g.shuffle(subs)
            return {"kind": kind, "shape": shape, "subs": subs, "vals": enc(np.array([gen_double(g) or 1.5 for _ in subs], dtype=float).reshape(-1, 1))}
        if kind == "sptensor" and g.random() < 0.08:
            # subscripts stored in a narrow integer type, reaching the largest value of that type
            N = g.randint(1, 3)
            tname = g.choice(["uint8", "int8", "uint16", "int16", "int32", "uint32"])
            top = int(np.iinfo(tname).max)
            shape = [g.choice([2, 3, 5]) for _ in range(N)]
            j = g.randrange(N)
            shape[j] = top + 1 + g.choice([0, 0, 3])
            rows = set()
            for _ in range(g.randint(1, 4)):
                rows.add(tuple((top - g.choice([0, 0, 1, 2])) if d == j else g.randrange(shape[d]) for d in range(N)))
            subs = [list(r) for r in sorted(rows)]
            g.shuffle(subs)
            return {"kind": kind, "shape": shape, "subs": subs, "subs_dtype": tname, "vals": enc(np.array([gen_double(g) or 1.5 for _ in subs], dtype=float).reshape(-1, 1))}
        if kind == "sptensor":
            N = g.randint(1, 4)
            shape = [g.choice([1, 2, 3, 4, 5]) for _ in range(N)]
            size = int(np.prod(shape))
            nnz = weighted(g, [(0, 1), (1, 2), (size, 1), (g.randint(1, size), 5)])
            lin = g.sample(range(size), min(nnz, size))
            subs = [list(int(v) for v in np.unravel_index(k, shape, order="F")) for k in lin]
            vals = []
            stored_zeros = g.random() < 0.15  # e.g. the result of S * 0.0: entries that are stored although zero
            for _ in subs:
                v = gen_double(g)
                if stored_zeros and g.random() < 0.5:
                    v = g.choice([0.0, -0.0])
                vals.append(v if (v != 0 or stored_zeros) else 1.5)
            return {"kind": kind, "shape": shape, "subs": subs, "vals": enc(np.array(vals, dtype=float).reshape(-1, 1)), "stored_zeros": stored_zeros}
        if kind == "ktensor" and g.random() < 0.03:
            # very many components (a weights line of several hundred numbers)
            N = g.randint(1, 3)
            shape = [g.choice([1, 2]) for _ in range(N)]
            r = g.choice([255, 256, 257, 300, 513, 700])
            base = gen_double(g)
            if not (abs(base) < 1e300):
                base = 1.5
            w = np.arange(r, dtype=float) * 0.001953125 + base
            fs = [(np.arange(s * r, dtype=float) * 0.03125 + base * (d + 2)).reshape(s, r) for d, s in enumerate(shape)]
            return {"kind": kind, "shape": shape, "weights": enc(w), "factors": [enc(f) for f in fs], "order": g.choice(["F", "C"])}
        if kind == "ktensor":
            N = g.randint(1, 4)
            shape = [g.choice([1, 2, 3, 4]) for _ in range(N)]
            r = g.randint(1, 3)
            if N >= 2 and g.random() < 0.04:
                shape[g.randrange(N)] = 0  # a mode without entries
            w = np.array([gen_double(g) for _ in range(r)])
            fs = [np.array([[gen_double(g) for _ in range(r)] for _ in range(s)], dtype=float).reshape(s, r) for s in shape]
            return {"kind": kind, "shape": shape, "weights": enc(w), "factors": [enc(f) for f in fs], "order": g.choice(["F", "C"])}
        rows, cols = g.choice([1, 2, 3, 4]), g.choice([1, 2, 3, 5])
        if g.random() < 0.05:
            if g.random() < 0.5:
                rows = 0
            else:
                cols = 0
        m = np.array([[gen_double(g) for _ in range(cols)] for _ in range(rows)], dtype=float).reshape(rows, cols)
        return {"kind": "matrix", "shape": [rows, cols], "data": enc(m), "order": g.choice(["F", "C"])}

    def run(self, run_seed: int, tier: str) -> RunResult:
        st = Streams(run_seed)
        sw = st.get("swarm")
        g = st.get("gen")
        res = RunResult()
        faulty = sw.random() < 0.4
        res.init = {
            "buffering": sw.choice([None, None, 1, 16, 64, 4096]),
            "prefill": sw.choice([None, "long", "garbage"]),
            "faulty": faulty,
            # process-global numpy print configuration set by "someone else" in the application
            "printopts": sw.choice([None, None, {"precision": 3}, {"legacy": "1.13"}, {"precision": 2, "floatmode": "fixed"}, {"suppress": True, "precision": 4}]),
        }
        steps: List[Dict[str, Any]] = []
        n = sw.randint(4, 16)
        written: List[str] = []
        for _ in range(n):
            k = weighted(g, [("export", 5), ("import", 4), ("foreign", 1), ("export_fmt", 1)])
            if k == "export_fmt":
                # an export with caller-chosen (possibly lossy) formats: judged for type and shape only, but every
                # later default-format export must still round-trip bit for bit
                path = g.choice(PATHS)
                steps.append({"op": "export", "path": path, "obj": self._gen_obj(g), "fault": None, "fmt_data": g.choice(["%d", "%.3e", "%.17g", "%.1f"]), "fmt_weights": g.choice([None, "%.2e", "%d"])})
                written.append(path)
                continue
            if k == "import" and not written:
                k = "export"
            if k == "export":
                path = g.choice(PATHS)
                step: Dict[str, Any] = {"op": "export", "path": path, "obj": self._gen_obj(g), "fault": None}
                if faulty and g.random() < 0.35:
                    step["fault"] = {"call": g.choice(["write", "write", "flush", "seek", "close"]), "at": g.randint(1, 8), "errno": g.choice([errno.ENOSPC, errno.EIO])}
                steps.append(step)
                written.append(path)
                if g.random() < 0.6:
                    steps.append({"op": "import", "path": path, "index_base": 1, "scribble": g.random() < 0.4})
                    if g.random() < 0.3:
                        steps.append({"op": "import", "path": path, "index_base": 1, "scribble": g.random() < 0.4})
            elif k == "import":
                steps.append({"op": "import", "path": g.choice(written), "index_base": 1, "scribble": g.random() < 0.4, "call": g.choice([None, None, "positional"])})
            else:
                path = g.choice(PATHS)
                base = g.choice([0, 1, 0, 2])
                obj = self._gen_obj(g)
                while obj["kind"] != "sptensor":
                    obj = self._gen_obj(g)
                steps.append({"op": "foreign", "path": path, "base": base, "obj": obj})
                written.append(path)
                steps.append({"op": "import", "path": path, "index_base": base, "call": g.choice(["keyword", "positional"])})
        world = self._start(res.init)
        try:
            for step in steps:
                res.steps.append(step)
                if not self._exec(world, step, len(res.steps) - 1, res):
                    break
        finally:
            self._stop(world)
        return self._finish(res)

    def _finish(self, res):
        res.nontrivial = res.stats.get("roundtrips_checked", 0) >= 2
        return res

    def replay(self, rec) -> RunResult:
        res = RunResult()
        res.init = rec["init"]
        world = self._start(rec["init"])
        try:
            for i, step in enumerate(rec["steps"]):
                res.steps.append(step)
                if not self._exec(world, step, i, res):
                    break
        finally:
            self._stop(world)
        return self._finish(res)

    # ------------------------------------------------------------------ world
    def _start(self, init):
        base = os.environ.get("VERIF_SCRATCH") or tempfile.gettempdir()
        root = tempfile.mkdtemp(prefix="verif_io_", dir=base)
        fs = SimFS(root, init.get("buffering"))
        w = {"root": root, "fs": fs, "model": {}, "init": init}
        if init.get("prefill"):
            for p in PATHS:
                with open(os.path.join(root, p), "w") as f:
                    if init["prefill"] == "long":
                        f.write("tensor\n1\n400\n" + "\n".join("7.7700000000000000e+00" for _ in range(400)) + "\n")
                    else:
                        f.write("x" * 5000 + "\n")
        self._printopts = np.get_printoptions()
        if init.get("printopts"):
            np.set_printoptions(**init["printopts"])
        self._saved = (getattr(self.exp_mod, "open", None), getattr(self.imp_mod, "open", None))
        self.exp_mod.open = fs.open
        self.imp_mod.open = fs.open
        return w

    def _stop(self, w):
        po = dict(self._printopts)
        legacy = po.pop("legacy", False)
        np.set_printoptions(**po, legacy=legacy)
        for mod, old in ((self.exp_mod, self._saved[0]), (self.imp_mod, self._saved[1])):
            if old is None:
                try:
                    delattr(mod, "open")
                except AttributeError:
                    pass
            else:
                mod.open = old
        shutil.rmtree(w["root"], ignore_errors=True)

    def _build(self, obj):
        ttb = self.ttb
        k = obj["kind"]
        if k == "tensor":
            data = np.asarray(dec(obj["data"]), dtype=float)
            data = np.asfortranarray(data) if obj.get("order", "F") == "F" else np.ascontiguousarray(data)
            return ttb.tensor(data, copy=True), {"kind": k, "shape": tuple(obj["shape"]), "data": np.array(data, copy=True)}
        if k == "sptensor" and obj.get("many"):
            shape = tuple(obj["shape"])
            n, st = obj["many"]["n"], obj["many"]["step"]
            if shape[0] < n * st + 10:
                st = 1
            first = np.array([shape[0] - 1 - i * st for i in range(n)], dtype=np.int64)
            subs = np.stack([first, np.arange(n, dtype=np.int64) % shape[1]], axis=1)
            vals = (np.arange(n, dtype=float) * 0.001953125 + 1.25).reshape(-1, 1)
            return ttb.sptensor(subs.copy(), vals.copy(), shape), {"kind": k, "shape": shape, "subs": subs, "vals": vals}
        if k == "sptensor":
            shape = tuple(obj["shape"])
            vals = np.asarray(dec(obj["vals"]), dtype=float).reshape(-1, 1)
            if len(obj["subs"]) == 0:
                return ttb.sptensor(shape=shape), {"kind": k, "shape": shape, "subs": np.zeros((0, len(shape)), dtype=int), "vals": np.zeros((0, 1))}
            subs = np.array(obj["subs"], dtype=np.int64).reshape(len(obj["subs"]), len(shape))
            if not obj.get("stored_zeros"):
                vals = np.where(vals == 0, 1.5, vals)
            return ttb.sptensor(subs.astype(obj.get("subs_dtype", "int64")), vals.copy(), shape), {"kind": k, "shape": shape, "subs": subs, "vals": vals}
        if k == "ktensor":
            w = np.asarray(dec(obj["weights"]), dtype=float)
            fs = [np.asarray(dec(f), dtype=float) for f in obj["factors"]]
            if obj.get("order") == "F":
                fs = [np.asfortranarray(f) for f in fs]
            return ttb.ktensor([f.copy(order="K") for f in fs], w.copy()), {"kind": k, "shape": tuple(obj["shape"]), "weights": w, "factors": fs}
        m = np.asarray(dec(obj["data"]), dtype=float)
        m = np.asfortranarray(m) if obj.get("order") == "F" else np.ascontiguousarray(m)
        return m, {"kind": "matrix", "shape": tuple(obj["shape"]), "data": np.array(m, copy=True)}

    # ------------------------------------------------------------------ steps
    def _exec(self, w, step, i, res: RunResult) -> bool:
        import logging

        logging.disable(logging.CRITICAL)
        try:
            return self._exec_inner(w, step, i, res)
        finally:
            logging.disable(logging.NOTSET)

    def _exec_inner(self, w, step, i, res: RunResult) -> bool:
        op = step["op"]
        res.bump("steps")
        res.bump("op:" + op)
        V = lambda oracle, detail: Violation("C16", oracle, op + ":" + str(step.get("obj", {}).get("kind", "")), i, detail)  # noqa: E731
        fs: SimFS = w["fs"]
        path = os.path.join(w["root"], step["path"]) if step.get("path") in PATHS else None
        if path is None:
            res.bump("skipped")
            return True
        v = None
        if op == "export":
            sut_obj, truth = self._build(step["obj"])
            fault = step.get("fault") if w["init"].get("faulty") else None
            fs.arm(fault)
            custom = step.get("fmt_data") is not None or step.get("fmt_weights") is not None
            try:
                if custom:
                    self.ttb.export_data(sut_obj, path, fmt_data=step.get("fmt_data"), fmt_weights=step.get("fmt_weights"))
                else:
                    self.ttb.export_data(sut_obj, path)
                ok = True
            except OSError:
                ok = False
            except Exception as e:  # noqa: BLE001
                fs.arm(None)
                v = V("export_succeeds", f"export_data raised {type(e).__name__}: {e}")
                ok = False
            ev = list(fs.events)
            fired = fs.fault_fired
            fs.arm(None)
            if v is None:
                if not ok and not fired:
                    v = V("export_succeeds", "export_data raised OSError without an injected fault")
                elif not ok:
                    res.bump("fault:" + fault["call"])
                    w["model"][step["path"]] = "indeterminate"
                    res.bump("probe:export_failed_path_indeterminate")
                else:
                    if fired:
                        # the fault was swallowed (e.g. raised while numpy had the descriptor): the caller was
                        # told the object is written, so the round trip must hold
                        res.bump("probe:fault_fired_but_export_returned")
                    if w["model"].get(step["path"]) is not None:
                        res.bump("probe:overwrite")
                        if w["model"][step["path"]] == "indeterminate":
                            res.bump("probe:recovered_after_failed_export")
                    w["model"][step["path"]] = "indeterminate" if custom else truth
                    if custom:
                        res.bump("probe:export_with_custom_format")
                    res.states.add(hash((step["obj"]["kind"], len(step["obj"]["shape"]), w["init"].get("buffering"), tuple(sorted(set(ev))))) & 0xFFFFFFFF)
                    # file-format facts checked by an independent reader
                    v = None if custom else self._check_file_text(path, truth, V)
            res.events.append([i, op, step["path"], bool(ok), fired])
        elif op == "foreign":
            _, truth = self._build(step["obj"])
            self._write_foreign(path, truth, step["base"])
            w["model"][step["path"]] = dict(truth, foreign_base=step["base"])
            res.events.append([i, op, step["path"], step["base"]])
        elif op == "import":
            truth = w["model"].get(step["path"])
            if truth is None or truth == "indeterminate":
                res.bump("skipped")
                res.events.append([i, op, "skip"])
                return True
            base = step.get("index_base", 1)
            if truth.get("foreign_base", 1) != base:
                res.bump("skipped")
                return True
            fs.arm(None)
            try:
                if step.get("call") == "positional":
                    got = self.ttb.import_data(path, base)
                else:
                    got = self.ttb.import_data(path, index_base=base) if base != 1 or "foreign_base" in truth else self.ttb.import_data(path)
            except Exception as e:  # noqa: BLE001
                v = V("import_succeeds", f"import_data raised {type(e).__name__}: {e}")
                got = None
            if v is None:
                v = self._compare(got, truth, V)
            if v is None and step.get("scribble"):
                # the application goes on to edit, in place, what it was handed: that object is its own
                self._scribble(got)
                res.bump("imported_objects_edited")
            if v is None:
                res.bump("roundtrips_checked")
                if "foreign_base" in truth:
                    res.bump("probe:foreign_index_base_%d" % base)
            res.events.append([i, op, step["path"], v is None])
        if v is not None:
            if op == "import":
                v.op = "import:" + str(w["model"].get(step["path"], {}).get("kind", "")) if isinstance(w["model"].get(step["path"]), dict) else v.op
            res.violation = v
            return False
        return True

    def _scribble(self, got):
        ttb = self.ttb
        try:
            with np.errstate(all="ignore"):
                if isinstance(got, ttb.tensor):
                    got.data[...] = -2.0 * got.data - 1.0
                elif isinstance(got, ttb.sptensor):
                    if got.vals.size:
                        got.vals[...] = -2.0 * got.vals - 1.0
                        got.subs[...] = 0
                elif isinstance(got, ttb.ktensor):
                    got.weights[...] = -2.0 * got.weights - 1.0
                    for f in got.factor_matrices:
                        f[...] = -2.0 * f - 1.0
                elif isinstance(got, np.ndarray):
                    got[...] = -2.0 * got - 1.0
        except (ValueError, TypeError):
            pass

    def _compare(self, got, truth, V) -> Optional[Violation]:
        ttb = self.ttb
        k = truth["kind"]
        if k == "tensor":
            if not isinstance(got, ttb.tensor):
                return V("same_type", f"exported a tensor, imported {type(got).__name__}")
            if tuple(got.shape) != truth["shape"]:
                return V("same_shape", f"shape {tuple(got.shape)} vs {truth['shape']}")
            if not same_bits(np.asarray(got.data, dtype=np.float64), truth["data"]):
                return V("values_bit_for_bit", f"dense values differ: got {np.asarray(got.data).reshape(-1, order='F')[:6].tolist()} want {truth['data'].reshape(-1, order='F')[:6].tolist()}")
        elif k == "sptensor":
            if not isinstance(got, ttb.sptensor):
                return V("same_type", f"exported a sptensor, imported {type(got).__name__}")
            if tuple(int(s) for s in got.shape) != truth["shape"]:
                return V("same_shape", f"shape {tuple(got.shape)} vs {truth['shape']}")
            gs = np.asarray(got.subs)
            if truth["subs"].shape[0] == 0:
                if gs.size != 0 or np.asarray(got.vals).size != 0:
                    return V("values_bit_for_bit", "empty sparse tensor came back with entries")
                return None
            if gs.shape != truth["subs"].shape or not np.array_equal(gs, truth["subs"]):
                return V("subscripts_and_order_preserved", f"subscripts {gs.tolist()[:12]} vs {truth['subs'].tolist()[:12]}" + (" ..." if gs.shape[0] > 12 else ""))
            if not same_bits(np.asarray(got.vals, dtype=np.float64).reshape(-1, 1), truth["vals"]):
                return V("values_bit_for_bit", f"sparse values {np.asarray(got.vals).reshape(-1).tolist()} vs {truth['vals'].reshape(-1).tolist()}")
        elif k == "ktensor":
            if not isinstance(got, ttb.ktensor):
                return V("same_type", f"exported a ktensor, imported {type(got).__name__}")
            if tuple(got.shape) != truth["shape"] or got.ncomponents != truth["weights"].shape[0]:
                return V("same_shape", f"shape {tuple(got.shape)} rank {got.ncomponents} vs {truth['shape']} rank {truth['weights'].shape[0]}")
            if not same_bits(np.asarray(got.weights, dtype=np.float64), truth["weights"]):
                return V("values_bit_for_bit", f"weights {np.asarray(got.weights).tolist()} vs {truth['weights'].tolist()}")
            for n, (a, b) in enumerate(zip(got.factor_matrices, truth["factors"])):
                if not same_bits(np.asarray(a, dtype=np.float64), np.asarray(b)):
                    return V("values_bit_for_bit", f"factor {n}: {np.asarray(a).tolist()} vs {np.asarray(b).tolist()}")
        else:
            if not isinstance(got, np.ndarray):
                return V("same_type", f"exported a matrix, imported {type(got).__name__}")
            if tuple(got.shape) != truth["shape"]:
                return V("same_shape", f"matrix shape {got.shape} vs {truth['shape']}")
            if not same_bits(np.asarray(got, dtype=np.float64), truth["data"]):
                return V("values_bit_for_bit", f"matrix {np.asarray(got).tolist()} vs {truth['data'].tolist()}")
        return None

    def _check_file_text(self, path, truth, V) -> Optional[Violation]:
        """Independent reader: header, and 1-based subscripts for sparse files."""
        with open(path, "r") as f:
            lines = f.read().split("\n")
        if not lines or lines[0].strip() != truth["kind"]:
            return V("file_header", f"first line {lines[:1]!r} for a {truth['kind']}")
        if truth["kind"] == "sptensor":
            try:
                nd = int(lines[1].split()[0])
                shape = tuple(int(t) for t in lines[2].split())
                nnz = int(lines[3].split()[0])
                rows = [ln.split() for ln in lines[4 : 4 + nnz]]
                subs = np.array([[int(t) for t in r[:-1]] for r in rows], dtype=int).reshape(nnz, nd)
            except Exception as e:  # noqa: BLE001
                return V("file_carries_one_based_subscripts", f"sparse file not parseable: {e!r}")
            if nd != len(truth["shape"]) or shape != truth["shape"] or nnz != truth["subs"].shape[0]:
                return V("file_header", f"header says ndims {nd} shape {shape} nnz {nnz}")
            if nnz and not np.array_equal(subs, truth["subs"] + 1):
                return V("file_carries_one_based_subscripts", f"file subscripts {subs.tolist()} for stored {truth['subs'].tolist()}")
            if any(ln.strip() for ln in lines[4 + nnz :]):
                return V("file_header", "trailing content after the last nonzero (stale bytes of an earlier file?)")
        return None

    def _write_foreign(self, path, truth, base):
        with open(path, "w") as f:
            f.write("sptensor\n")
            f.write(f"{len(truth['shape'])}\n")
            f.write(" ".join(str(s) for s in truth["shape"]) + "\n")
            f.write(f"{truth['subs'].shape[0]}\n")
            for row, v in zip(truth["subs"].tolist(), truth["vals"].reshape(-1).tolist()):
                f.write(" ".join(str(k + base) for k in row) + " " + repr(float(v)) + "\n")
