"""Malformed-request recipes of C19 for engine B (filled in below)."""


def register(cat):
    pass
