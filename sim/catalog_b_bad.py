"""Malformed-request recipes of C19 for engine B: only violations that C19's statement
names (dimensionally inconsistent operands, bad mode arguments, invalid permutations,
element-count-changing reshapes, inconsistent constructor components, bad algorithm
options).  Every recipe carries a ``malformed`` predicate that re-establishes, from the
actual operands at execution time, that the request really violates the precondition."""

from __future__ import annotations

from typing import Any, Dict

import numpy as np

from .catalog_b import rand_array, rnd


def register(cat):
    ttb = cat.ttb
    bad = cat.badop

    def shp(o):
        return tuple(int(s) for s in o.shape)

    def other_shape(c, kinds, shape, same_order=None):
        def pred(o):
            s = shp(o)
            if s == tuple(shape):
                return False
            if same_order is True and len(s) != len(shape):
                return False
            return True

        return c.pick(kinds, pred)

    ALL = ("T", "S", "K", "TT")

    # ---------------------------------------------------------------- inner products
    for kind in ("T", "S", "K", "TT", "SUM"):
        def gen_ip(c, r, kind=kind):
            o = other_shape(c, ("T", "S", "K") if kind == "SUM" else ALL, shp(c.obj(r)))
            return None if o is None else {"operands": [r, o]}

        bad(kind + ".innerprod_shape", kind, gen_ip, lambda eng, ops, st: ops[0].innerprod(ops[1]), lambda ops, st: shp(ops[0]) != shp(ops[1]))

    # ------------------------------------------------- element-wise on sparse / Kruskal / sum
    def gen_binop(c, r, others):
        o = other_shape(c, others, shp(c.obj(r)))
        return None if o is None else {"operands": [r, o], "which": c.g.choice(["add", "sub", "mul", "eq", "le", "and", "or", "xor"])}

    def run_sbin(eng, ops, st):
        a, b = ops
        return {
            "add": lambda: a + b,
            "sub": lambda: a - b,
            "mul": lambda: a * b,
            "eq": lambda: a == b,
            "le": lambda: a <= b,
            "and": lambda: a.logical_and(b),
            "or": lambda: a.logical_or(b),
            "xor": lambda: a.logical_xor(b),
        }[st["which"]]()

    def not_broadcastable(ops, st):
        a, b = shp(ops[0]), shp(ops[1])
        return a != b

    bad("S.elementwise_shape", "S", lambda c, r: gen_binop(c, r, ("S", "T")), run_sbin, not_broadcastable, known=None)

    def gen_s_times_k(c, r):
        # a Kruskal tensor of the same order whose modes are at least as long as the sparse tensor's (so that reading
        # its factor rows at the stored subscripts "works"), but not of the same shape
        sh = shp(c.obj(r))
        ksh = list(sh)
        for d in c.g.sample(range(len(sh)), c.g.randint(1, len(sh))):
            ksh[d] += c.g.randint(1, 2)
        rk = c.g.randint(1, 2)
        return {"operands": [r] + [c.fresh(np.asfortranarray(rand_array(c.g, (s, rk)))) for s in ksh], "side": c.g.choice(["S*K", "K*S"])}

    def run_s_times_k(eng, ops, st):
        K = ttb.ktensor(list(ops[1:]))
        return ops[0] * K if st["side"] == "S*K" else K * ops[0]

    bad("S.times_ktensor_shape", "S", gen_s_times_k, run_s_times_k, lambda ops, st: tuple(o.shape[0] for o in ops[1:]) != tuple(shp(ops[0])))

    def gen_kadd(c, r):
        o = other_shape(c, "K", shp(c.obj(r)))
        return None if o is None else {"operands": [r, o], "which": c.g.choice(["add", "sub"])}

    bad("K.add_shape", "K", gen_kadd, run_sbin, not_broadcastable)
    bad("K.mask_shape", "K", lambda c, r: (lambda o: None if o is None else {"operands": [r, o]})(other_shape(c, ("T", "S"), shp(c.obj(r)))), lambda eng, ops, st: ops[0].mask(ops[1]), lambda ops, st: any(a > b for a, b in zip(shp(ops[1]), shp(ops[0]))) or len(shp(ops[0])) != len(shp(ops[1])))
    bad("K.score_shape", "K", lambda c, r: (lambda o: None if o is None else {"operands": [r, o]})(other_shape(c, "K", shp(c.obj(r)))), lambda eng, ops, st: ops[0].score(ops[1]), not_broadcastable)
    bad("SUM.add_shape", "SUM", lambda c, r: (lambda o: None if o is None else {"operands": [r, o]})(other_shape(c, ALL, shp(c.obj(r)))), lambda eng, ops, st: ops[0] + ops[1], not_broadcastable)
    bad("S.mask_shape", "S", lambda c, r: (lambda o: None if o is None else {"operands": [r, o]})(other_shape(c, "S", shp(c.obj(r)))), lambda eng, ops, st: ops[0].mask(ops[1]), lambda ops, st: any(a > b for a, b in zip(shp(ops[1]), shp(ops[0]))) or len(shp(ops[0])) != len(shp(ops[1])))

    # ------------------------------------------------------------------ permutations
    def gen_perm(c, r):
        n = c.obj(r).ndims
        kind = c.g.choice(["repeat", "short", "long", "oor"] + ([] if c.heap.kinds[r] == "T" else ["negative", "all_ones"]))
        if kind == "negative":
            # (the dense class follows numpy and reads -1 as the last mode; the other classes document 0..N-1 only)
            p = list(range(n))
            c.g.shuffle(p)
            j = c.g.randrange(n)
            p[j] = p[j] - n
        elif kind == "all_ones":
            if n < 2:
                return None
            p = [1] * n
        elif kind == "repeat":
            if n < 2:
                return None
            p = list(range(n))
            p[1] = p[0]
        elif kind == "short":
            if n < 2:
                return None
            p = list(range(n - 1))
        elif kind == "long":
            p = list(range(n + 1))
        else:
            p = list(range(n))
            p[-1] = n
        return {"operands": [r], "perm": p}

    def bad_perm(ops, st):
        n = ops[0].ndims
        return sorted(st["perm"]) != list(range(n))

    for kind in ("T", "S", "K", "TT"):
        bad(
            kind + ".permute_invalid",
            kind,
            gen_perm,
            lambda eng, ops, st: ops[0].permute(np.array(st["perm"])),
            bad_perm,
            known=(lambda ops, st: "tensor_permute_order_all_ones" if all(p == 1 for p in st["perm"]) else None) if kind == "T" else None,
        )

    # ---------------------------------------------------------------------- reshapes
    def gen_reshape(c, r):
        size = int(np.prod(shp(c.obj(r))))
        return {"operands": [r], "shape": c.g.choice([[size + 1], [size, 2], [max(1, size - 1)], [2, size + 1]])}

    def bad_reshape(ops, st):
        return int(np.prod(st["shape"])) != int(np.prod(shp(ops[0])))

    bad("T.reshape_count", "T", gen_reshape, lambda eng, ops, st: ops[0].reshape(tuple(st["shape"])), bad_reshape)
    bad("S.reshape_count", "S", gen_reshape, lambda eng, ops, st: ops[0].reshape(tuple(st["shape"])), bad_reshape)

    # --------------------------------------------------- vectors / matrices / factor lists
    def gen_ttv_len(c, r):
        sh = shp(c.obj(r))
        d = c.g.randrange(len(sh))
        ln = sh[d] + c.g.choice([-1, 1, 2])
        if ln < 1:
            ln = sh[d] + 1
        return {"operands": [r, c.fresh(rand_array(c.g, (ln,)))], "dim": d}

    def bad_ttv_len(ops, st):
        return ops[1].shape[0] != shp(ops[0])[st["dim"]]

    for kind in ("T", "S", "K", "TT", "SUM"):
        bad(kind + ".ttv_length", kind, gen_ttv_len, lambda eng, ops, st: ops[0].ttv(ops[1], st["dim"]), bad_ttv_len)

    def gen_ttv_count(c, r):
        sh = shp(c.obj(r))
        n = len(sh)
        k = n + 1 if c.g.random() < 0.5 or n < 2 else n - 1
        vs = [c.fresh(rand_array(c.g, (sh[i % n],))) for i in range(k)]
        return {"operands": [r] + vs}

    for kind in ("T", "S", "K", "TT"):
        bad(kind + ".ttv_count", kind, gen_ttv_count, lambda eng, ops, st: ops[0].ttv(list(ops[1:])), lambda ops, st: len(ops) - 1 != ops[0].ndims)

    def gen_ttv_count_dims(c, r):
        # explicit modes, and a list that has neither one vector per listed mode nor one per mode of the tensor
        sh = shp(c.obj(r))
        n = len(sh)
        if n < 3:
            return None
        m = c.g.randint(2, n - 1)  # length of the list
        p = c.g.randint(1, m - 1)  # number of listed modes (all below m, so that "vector of mode d" exists in the list)
        dims = sorted(c.g.sample(range(m), p))
        if c.g.random() < 0.3:
            c.g.shuffle(dims)
        return {"operands": [r] + [c.fresh(rand_array(c.g, (sh[i],))) for i in range(m)], "dims": dims}

    def bad_count_dims(ops, st):
        return len(ops) - 1 not in (len(st["dims"]), ops[0].ndims)

    for kind in ("T", "S", "K", "TT", "SUM"):
        bad(kind + ".ttv_count_between", kind, gen_ttv_count_dims, lambda eng, ops, st: ops[0].ttv(list(ops[1:]), np.array(st["dims"])), bad_count_dims)

    def gen_ttm_count_dims(c, r):
        sh = shp(c.obj(r))
        n = len(sh)
        if n < 3:
            return None
        m = c.g.randint(2, n - 1)
        p = c.g.randint(1, m - 1)
        dims = sorted(c.g.sample(range(m), p))
        return {"operands": [r] + [c.fresh(np.asfortranarray(rand_array(c.g, (2, sh[i])))) for i in range(m)], "dims": dims}

    for kind in ("T", "S", "TT"):
        bad(kind + ".ttm_count_between", kind, gen_ttm_count_dims, lambda eng, ops, st: ops[0].ttm(list(ops[1:]), np.array(st["dims"])), bad_count_dims)

    def gen_ttv_dims(c, r):
        sh = shp(c.obj(r))
        n = len(sh)
        kind = c.g.choice(["oor", "negative", "repeated", "both", "exclude_negative", "exclude_oor"])
        if kind in ("exclude_negative", "exclude_oor"):
            ex = [-1 - c.g.randint(0, 1)] if kind == "exclude_negative" else [n + c.g.randint(0, 1)]
            return {"operands": [r] + [c.fresh(rand_array(c.g, (s,))) for s in sh], "dims": None, "exclude": ex}
        if kind == "oor":
            return {"operands": [r, c.fresh(rand_array(c.g, (sh[0],)))], "dims": [n + c.g.randint(0, 1)], "exclude": None}
        if kind == "negative":
            return {"operands": [r, c.fresh(rand_array(c.g, (sh[-1],)))], "dims": [-1 - c.g.randint(0, 1) - n], "exclude": None}
        if kind == "repeated":
            return {"operands": [r, c.fresh(rand_array(c.g, (sh[0],))), c.fresh(rand_array(c.g, (sh[0],)))], "dims": [0, 0], "exclude": None}
        return {"operands": [r, c.fresh(rand_array(c.g, (sh[0],)))], "dims": [0], "exclude": [n - 1]}

    def run_ttv_dims(eng, ops, st):
        vs = list(ops[1:])
        if st["dims"] is None:
            return ops[0].ttv(vs, exclude_dims=np.array(st["exclude"]))
        if st["exclude"] is not None:
            return ops[0].ttv(vs if len(vs) > 1 else vs[0], dims=np.array(st["dims"]), exclude_dims=np.array(st["exclude"]))
        return ops[0].ttv(vs if len(vs) > 1 else vs[0], dims=np.array(st["dims"]))

    def bad_dims(ops, st):
        n = ops[0].ndims
        d = st["dims"]
        if d is None:
            return any(x < 0 or x >= n for x in st["exclude"])
        return st["exclude"] is not None or any(x >= n or x < -n for x in d) or len(set(d)) != len(d) or any(x < -n for x in d)

    bad("T.ttv_dims", "T", gen_ttv_dims, run_ttv_dims, bad_dims)
    bad("TT.ttv_dims", "TT", gen_ttv_dims, run_ttv_dims, bad_dims)
    bad("S.ttv_dims", "S", gen_ttv_dims, run_ttv_dims, bad_dims, known=None)
    bad("K.ttv_dims", "K", gen_ttv_dims, run_ttv_dims, bad_dims)

    def gen_ttm_size(c, r):
        sh = shp(c.obj(r))
        d = c.g.randrange(len(sh))
        cols = sh[d] + c.g.choice([1, 2])
        return {"operands": [r, c.fresh(np.asfortranarray(rand_array(c.g, (2, cols))))], "dim": d}

    for kind in ("T", "S", "TT"):
        bad(kind + ".ttm_size", kind, gen_ttm_size, lambda eng, ops, st: ops[0].ttm(ops[1], st["dim"]), lambda ops, st: ops[1].shape[1] != shp(ops[0])[st["dim"]])

    def gen_mttkrp(c, r):
        sh = shp(c.obj(r))
        n = len(sh)
        if n < 2:
            return None
        kind = c.g.choice(["length", "columns", "rows", "rows_swapped", "rows_swapped"])
        rk = 2
        mats = [np.asfortranarray(rand_array(c.g, (s, rk))) for s in sh]
        mode = c.g.randrange(n)
        if kind == "rows_swapped":
            # right total number of rows, wrong individual sizes: two factors (not the skipped mode) exchanged
            pairs = [(a, b) for a in range(n) for b in range(a + 1, n) if a != mode and b != mode and sh[a] != sh[b]]
            if not pairs:
                pairs = [(a, b) for a in range(n) for b in range(a + 1, n) if sh[a] != sh[b]]
                if not pairs:
                    return None
                a, b = c.g.choice(pairs)
                mode = next(m for m in range(n) if m not in (a, b)) if n > 2 else None
                if mode is None:
                    return None
            else:
                a, b = c.g.choice(pairs)
            mats[a], mats[b] = mats[b], mats[a]
            return {"operands": [r] + [c.fresh(m) for m in mats], "n": mode}
        if kind == "length":
            mats = mats[:-1] if c.g.random() < 0.5 else mats + [mats[0]]
        elif kind == "columns":
            j = c.g.choice([m for m in range(n) if m != mode])
            mats[j] = np.asfortranarray(rand_array(c.g, (sh[j], rk + 1)))
        else:
            j = c.g.choice([m for m in range(n) if m != mode])
            mats[j] = np.asfortranarray(rand_array(c.g, (sh[j] + 1, rk)))
        return {"operands": [r] + [c.fresh(m) for m in mats], "n": mode}

    def bad_mttkrp(ops, st):
        sh = shp(ops[0])
        mats = ops[1:]
        if len(mats) != len(sh):
            return True
        mode = st["n"]
        cols = {m.shape[1] for k, m in enumerate(mats) if k != mode}
        if len(cols) > 1:
            return True
        return any(m.shape[0] != sh[k] for k, m in enumerate(mats) if k != mode)

    for kind in ("T", "S", "K", "TT"):
        bad(kind + ".mttkrp_factors", kind, gen_mttkrp, lambda eng, ops, st: ops[0].mttkrp(list(ops[1:]), st["n"]), bad_mttkrp)

    def gen_scale(c, r):
        sh = shp(c.obj(r))
        d = c.g.randrange(len(sh))
        return {"operands": [r, c.fresh(rand_array(c.g, (sh[d] + c.g.choice([1, 2]),)))], "dim": d}

    bad("T.scale_size", "T", gen_scale, lambda eng, ops, st: ops[0].scale(ops[1], st["dim"]), lambda ops, st: ops[1].shape[0] != shp(ops[0])[st["dim"]])
    bad("S.scale_size", "S", gen_scale, lambda eng, ops, st: ops[0].scale(ops[1], np.array([st["dim"]])), lambda ops, st: ops[1].shape[0] != shp(ops[0])[st["dim"]])

    def gen_scale_multi(c, r):
        # two modes scaled at once: the factor must have exactly the shape of those modes
        sh = shp(c.obj(r))
        pairs = [(a, b) for a in range(len(sh)) for b in range(a + 1, len(sh)) if sh[a] != sh[b]]
        if not pairs:
            return None
        a, b = c.g.choice(pairs)
        kind = c.g.choice(["swapped", "flat"])
        fac = rand_array(c.g, (sh[b], sh[a])) if kind == "swapped" else rand_array(c.g, (sh[a] * sh[b],))
        return {"operands": [r, c.fresh(fac)], "dims": [a, b]}

    def bad_scale_multi(ops, st):
        want = tuple(shp(ops[0])[d] for d in st["dims"])
        return tuple(ops[1].shape) != want

    bad("T.scale_multi_mode_shape", "T", gen_scale_multi, lambda eng, ops, st: ops[0].scale(ttb.tensor(ops[1]) if ops[1].ndim > 1 else ops[1], np.array(st["dims"])), bad_scale_multi)

    def gen_T_mask(c, r):
        # a mask that is larger than the data in some mode, but whose nonzeros all lie inside the data
        sh = shp(c.obj(r))
        n = len(sh)
        j = c.g.randrange(n)
        msh = list(sh)
        msh[j] = sh[j] + c.g.randint(1, 2)
        for d in range(n):
            if d != j and sh[d] > 1 and c.g.random() < 0.5:
                msh[d] = sh[d] - 1
        w = np.zeros(msh)
        w[tuple(0 for _ in msh)] = 1.0
        if all(m >= 2 for m in msh[:1]) and min(msh[0], sh[0]) >= 2:
            w[(1,) + tuple(0 for _ in msh[1:])] = 1.0
        return {"operands": [r, c.fresh(np.asfortranarray(w))], "sparse_mask": c.g.random() < 0.4}

    def run_T_mask(eng, ops, st):
        W = ttb.tensor(ops[1])
        return ops[0].mask(W.to_sptensor() if st["sparse_mask"] else W)

    bad("T.mask_shape", "T", gen_T_mask, run_T_mask, lambda ops, st: len(ops[1].shape) == ops[0].ndims and any(a > b for a, b in zip(ops[1].shape, shp(ops[0]))))

    def gen_mttkrp_ktensor_order(c, r):
        # the factors given as a Kruskal tensor with one mode more than the receiver (leading modes match)
        sh = shp(c.obj(r))
        rk = 2
        mats = [np.asfortranarray(rand_array(c.g, (s, rk))) for s in sh] + [np.asfortranarray(rand_array(c.g, (c.g.randint(2, 3), rk)))]
        return {"operands": [r] + [c.fresh(m) for m in mats], "n": c.g.choice([0, len(sh) - 1, c.g.randrange(len(sh))])}

    for kind in ("T", "S", "K"):
        bad(kind + ".mttkrp_ktensor_of_higher_order", kind, gen_mttkrp_ktensor_order, lambda eng, ops, st: ops[0].mttkrp(ttb.ktensor(list(ops[1:])), st["n"]), lambda ops, st: len(ops) - 1 != ops[0].ndims)

    for kind in ("T", "S", "K", "TT", "SUM"):
        def gen_mttkrp_mode(c, r):
            x = c.obj(r)
            sh = shp(x)
            if len(sh) < 2:
                return None
            rk = c.g.randint(1, 2)
            n = c.g.choice([-1, -2, -len(sh), len(sh), len(sh) + 1])
            return {"operands": [r] + [c.fresh(np.asfortranarray(rand_array(c.g, (s_, rk)))) for s_ in sh], "n": n}

        bad(kind + ".mttkrp_mode_out_of_range", kind, gen_mttkrp_mode, lambda eng, ops, st: ops[0].mttkrp(list(ops[1:]), st["n"]), lambda ops, st: not (0 <= st["n"] < ops[0].ndims))

    def gen_contract(c, r):
        sh = shp(c.obj(r))
        pairs = [(i, j) for i in range(len(sh)) for j in range(len(sh)) if i != j and sh[i] != sh[j]]
        if len(sh) >= 2 and c.g.random() < 0.3:
            # a mode counted from the end, or beyond the last one
            i = c.g.randrange(len(sh))
            j = c.g.choice([-1, -len(sh), len(sh), len(sh) + 1])
            if c.g.random() < 0.5:
                i, j = j, i
            return {"operands": [r], "i": i, "j": j}
        if pairs and c.g.random() < 0.7:
            i, j = c.g.choice(pairs)
        else:
            i = j = c.g.randrange(len(sh))
        return {"operands": [r], "i": i, "j": j}

    def bad_contract(ops, st):
        sh = shp(ops[0])
        if not (0 <= st["i"] < len(sh) and 0 <= st["j"] < len(sh)):
            return True
        return st["i"] == st["j"] or sh[st["i"]] != sh[st["j"]]

    bad("T.contract_invalid", "T", gen_contract, lambda eng, ops, st: ops[0].contract(st["i"], st["j"]), bad_contract)
    bad("S.contract_invalid", "S", gen_contract, lambda eng, ops, st: ops[0].contract(st["i"], st["j"]), bad_contract)

    def gen_ttt(c, r):
        o = c.pick("T")
        if o is None:
            return None
        a, b = shp(c.obj(r)), shp(c.obj(o))
        pairs = [(i, j) for i in range(len(a)) for j in range(len(b)) if a[i] != b[j]]
        if not pairs:
            return None
        i, j = c.g.choice(pairs)
        return {"operands": [r, o], "sd": [i], "od": [j]}

    bad("T.ttt_dims", "T", gen_ttt, lambda eng, ops, st: ops[0].ttt(ops[1], np.array(st["sd"]), np.array(st["od"])), lambda ops, st: shp(ops[0])[st["sd"][0]] != shp(ops[1])[st["od"][0]])

    def gen_ttt_count(c, r):
        # dimension lists of different lengths; the contracted modes are mostly singletons (sizes that broadcast)
        g = c.g
        na, nb = g.randint(2, 3), g.randint(2, 3)
        la, lb = g.choice([(1, 2), (2, 1), (1, 0), (0, 1), (2, 0), (1, 3), (3, 1)])
        if la > na or lb > nb:
            return None
        a = [g.randint(2, 3) for _ in range(na)]
        b = [g.randint(2, 3) for _ in range(nb)]
        sd = sorted(g.sample(range(na), la))
        od = sorted(g.sample(range(nb), lb))
        single = g.random() < 0.8
        for d in sd:
            a[d] = 1 if single else g.randint(1, 2)
        for d in od:
            b[d] = 1 if single else g.randint(1, 2)
        return {"operands": [c.fresh(np.asfortranarray(rand_array(g, tuple(a)))), c.fresh(np.asfortranarray(rand_array(g, tuple(b))))], "sd": sd, "od": od}

    bad(
        "T.ttt_dims_count",
        None,
        gen_ttt_count,
        lambda eng, ops, st: ttb.tensor(ops[0]).ttt(ttb.tensor(ops[1]), np.array(st["sd"], dtype=int), np.array(st["od"], dtype=int)),
        lambda ops, st: len(st["sd"]) != len(st["od"]),
    )

    def gen_to_tenmat(c, r):
        n = c.obj(r).ndims
        if n < 2:
            return None
        kind = c.g.choice(["missing", "repeated", "oor"])
        if kind == "missing":
            return {"operands": [r], "rdims": [0], "cdims": list(range(2, n))}
        if kind == "repeated":
            return {"operands": [r], "rdims": [0], "cdims": list(range(0, n))}
        return {"operands": [r], "rdims": [n], "cdims": list(range(0, n))}

    def bad_partition(ops, st):
        n = ops[0].ndims
        return sorted(st["rdims"] + st["cdims"]) != list(range(n))

    bad("T.to_tenmat_dims", "T", gen_to_tenmat, lambda eng, ops, st: ops[0].to_tenmat(rdims=np.array(st["rdims"], dtype=int), cdims=np.array(st["cdims"], dtype=int)), bad_partition)
    bad("S.to_sptenmat_dims", "S", gen_to_tenmat, lambda eng, ops, st: ops[0].to_sptenmat(rdims=np.array(st["rdims"], dtype=int), cdims=np.array(st["cdims"], dtype=int)), bad_partition)

    def gen_extract(c, r):
        sh = shp(c.obj(r))
        rows = [[c.g.randrange(s) for s in sh] for _ in range(2)]
        kind = c.g.choice(["oor", "width"])
        if kind == "oor":
            d = c.g.randrange(len(sh))
            rows[0][d] = sh[d] + c.g.randint(0, 1)
        else:
            rows = [row + [0] for row in rows]
        return {"operands": [r, c.fresh(np.array(rows, dtype=int))]}

    def bad_extract(ops, st):
        sh = shp(ops[0])
        s = ops[1]
        return s.shape[1] != len(sh) or bool((s >= np.array(sh)).any()) or bool((s < 0).any())

    bad("S.extract_invalid", "S", gen_extract, lambda eng, ops, st: ops[0].extract(ops[1]), bad_extract)

    # -------------------------------------------------------------------- constructors
    def gen_tensor_ctor(c, r):
        shape = c.g.choice(c.heap_families())
        size = int(np.prod(shape))
        return {"operands": [c.fresh(rand_array(c.g, (size + c.g.choice([1, 2, -1]),)))], "shape": list(shape)}

    bad("tensor_ctor_size", None, gen_tensor_ctor, lambda eng, ops, st: ttb.tensor(ops[0], tuple(st["shape"])), lambda ops, st: ops[0].size != int(np.prod(st["shape"])))

    def gen_sptensor_ctor(c, r):
        shape = list(c.g.choice(c.heap_families()))
        subs = np.array([[c.g.randrange(s) for s in shape] for _ in range(2)], dtype=int)
        d = c.g.randrange(len(shape))
        subs[0, d] = shape[d] + c.g.randint(0, 1)
        vals = np.array([[rnd(c.g)], [rnd(c.g)]])
        return {"operands": [c.fresh(subs), c.fresh(vals)], "shape": shape}

    def gen_sptensor_ctor_width(c, r):
        # subscripts (all in range) with another number of columns than the shape has modes, including the widths
        # that numpy would broadcast against the shape (one column; a one-mode shape)
        shape = list(c.g.choice(c.heap_families()))
        kind = c.g.choice(["one_column", "one_mode_shape", "narrower", "wider"])
        n = len(shape)
        if kind == "one_mode_shape":
            shape = [c.g.randint(2, 5)]
            width = c.g.randint(2, 3)
        elif kind == "one_column":
            if n < 2:
                return None
            width = 1
        elif kind == "narrower":
            if n < 3:
                return None
            width = n - 1
        else:
            width = n + 1
        lim = min(shape)
        rows = sorted({tuple(c.g.randrange(lim) for _ in range(width)) for _ in range(c.g.randint(1, 3))})
        subs = np.array(rows, dtype=int).reshape(len(rows), width)
        vals = np.array([[rnd(c.g)] for _ in rows])
        return {"operands": [c.fresh(subs), c.fresh(vals)], "shape": shape, "copy": c.g.choice([True, False])}

    bad("sptensor_ctor_subs_width", None, gen_sptensor_ctor_width, lambda eng, ops, st: ttb.sptensor(ops[0], ops[1], tuple(st["shape"]), copy=st["copy"]), lambda ops, st: ops[0].ndim == 2 and ops[0].shape[1] != len(st["shape"]))

    bad("sptensor_ctor_subs_beyond_shape", None, gen_sptensor_ctor, lambda eng, ops, st: ttb.sptensor(ops[0], ops[1], tuple(st["shape"])), lambda ops, st: bool((ops[0] >= np.array(st["shape"])).any()))

    def gen_aggregator(c, r):
        shape = list(c.g.choice(c.heap_families()))
        kind = c.g.choice(["count", "width", "beyond", "beyond_zero", "beyond_cancelling"])
        n = len(shape)
        subs = np.array([[c.g.randrange(s) for s in shape] for _ in range(3)], dtype=int)
        vals = np.array([[rnd(c.g) or 1.5] for _ in range(3)])
        if kind == "count":
            vals = vals[:2]
        elif kind == "width":
            subs = np.hstack([subs, np.zeros((3, 1), dtype=int)])
        elif kind == "beyond":
            subs[1, 0] = shape[0] + 1
        elif kind == "beyond_zero":
            # the entry outside the shape carries the value zero (it would not be stored)
            d = c.g.randrange(n)
            subs[1, d] = shape[d] + c.g.randint(0, 1)
            vals[1, 0] = 0.0
        else:
            # two entries outside the shape, at the same position, whose sum is zero
            d = c.g.randrange(n)
            subs[1, d] = shape[d] + c.g.randint(0, 1)
            subs[2, :] = subs[1, :]
            vals[2, 0] = -vals[1, 0]
        return {"operands": [c.fresh(subs), c.fresh(vals)], "shape": shape}

    def bad_aggregator(ops, st):
        s, v = ops
        sh = st["shape"]
        return s.shape[0] != v.shape[0] or s.shape[1] != len(sh) or bool((s >= np.array(sh + [10**9] * (s.shape[1] - len(sh)))[: s.shape[1]]).any())

    bad("sptensor_from_aggregator_inconsistent", None, gen_aggregator, lambda eng, ops, st: ttb.sptensor.from_aggregator(ops[0], ops[1], tuple(st["shape"])), bad_aggregator)

    def gen_ktensor_ctor(c, r):
        shape = c.g.choice(c.heap_families())
        kind = c.g.choice(["columns", "weights", "ndim"])
        fs = [np.asfortranarray(rand_array(c.g, (s, 2))) for s in shape]
        w = np.array([1.0, 2.0])
        if kind == "ndim":
            j = c.g.randrange(len(fs))
            fs[j] = np.asfortranarray(rand_array(c.g, (shape[j], 2, c.g.randint(1, 3))))
        elif kind == "columns":
            fs[-1] = np.asfortranarray(rand_array(c.g, (shape[-1], 3)))
        else:
            w = np.array([1.0, 2.0, 3.0])
        return {"operands": [c.fresh(f) for f in fs] + [c.fresh(w)]}

    def bad_ktensor(ops, st):
        if any(f.ndim != 2 for f in ops[:-1]):
            return True
        cols = {f.shape[1] for f in ops[:-1]}
        return len(cols) > 1 or ops[-1].shape[0] not in cols

    bad("ktensor_ctor_inconsistent", None, gen_ktensor_ctor, lambda eng, ops, st: ttb.ktensor(list(ops[:-1]), ops[-1]), bad_ktensor)

    def gen_ttensor_ctor(c, r):
        core = c.pick("T")
        if core is None:
            return None
        cs = shp(c.obj(core))
        kind = c.g.choice(["columns", "count"])
        fs = [np.asfortranarray(rand_array(c.g, (3, rk))) for rk in cs]
        if kind == "columns":
            j = c.g.randrange(len(cs))
            fs[j] = np.asfortranarray(rand_array(c.g, (3, cs[j] + 1)))
        else:
            fs = fs[:-1] if len(fs) > 1 else fs + [fs[0]]
        return {"operands": [core] + [c.fresh(f) for f in fs]}

    def bad_ttensor(ops, st):
        cs = shp(ops[0])
        fs = ops[1:]
        return len(fs) != len(cs) or any(f.shape[1] != k for f, k in zip(fs, cs))

    bad("ttensor_ctor_inconsistent", None, gen_ttensor_ctor, lambda eng, ops, st: ttb.ttensor(ops[0], list(ops[1:])), bad_ttensor)

    def gen_sumtensor_ctor(c, r):
        a = c.pick(ALL)
        if a is None:
            return None
        b = other_shape(c, ALL, shp(c.obj(a)))
        return None if b is None else {"operands": [a, b]}

    bad("sumtensor_ctor_shapes", None, gen_sumtensor_ctor, lambda eng, ops, st: ttb.sumtensor(list(ops)), lambda ops, st: shp(ops[0]) != shp(ops[1]))

    def gen_sum_add_list(c, r):
        a = c.pick(ALL)
        if a is None:
            return None
        b = other_shape(c, ALL, shp(c.obj(a)))
        if b is None:
            return None
        return {"operands": [a, b], "receiver": c.g.choice(["empty", "empty", "one_part"]), "reflected": c.g.random() < 0.3}

    def run_sum_add_list(eng, ops, st):
        recv = ttb.sumtensor() if st["receiver"] == "empty" else ttb.sumtensor([ops[0]])
        return ([ops[0], ops[1]] + recv) if st["reflected"] else (recv + [ops[0], ops[1]])

    bad("sumtensor_add_list_of_mismatched_shapes", None, gen_sum_add_list, run_sum_add_list, lambda ops, st: shp(ops[0]) != shp(ops[1]))

    def gen_symmetrize_overlap(c, r):
        n = c.g.choice([3, 3, 4, 5])
        arr = rand_array(c.g, (2,) * n)
        grps = c.g.choice([[[0, 1], [1, 2]], [[0], [1], [0]], [[0, 1], [2], [1]], [[0, 2], [1], [2]]] + ([[[0, 1], [2, 3], [0, 4]]] if n >= 5 else []))
        if max(max(g) for g in grps) >= n:
            return None
        return {"operands": [c.fresh(arr)], "grps": grps}

    def run_symmetrize_overlap(eng, ops, st):
        width = max(len(g) for g in st["grps"])
        if any(len(g) != width for g in st["grps"]):
            grps = np.array([g + [g[-1]] * (width - len(g)) for g in st["grps"]])
        else:
            grps = np.array(st["grps"])
        return ttb.tensor(ops[0]).symmetrize(grps)

    def bad_symmetrize(ops, st):
        flat = [m for g in st["grps"] for m in set(g)]
        return len(flat) != len(set(flat))

    bad("T.symmetrize_overlapping_groups", None, gen_symmetrize_overlap, run_symmetrize_overlap, bad_symmetrize)

    def gen_tenmat_ctor(c, r):
        shape = list(c.g.choice(c.heap_families()))
        n = len(shape)
        kind = c.g.choice(["size", "partition", "rows", "rows"])
        rd, cd = [0], list(range(1, n))
        rows, cols = shape[0], int(np.prod(shape[1:]))
        if kind == "size":
            data = rand_array(c.g, (rows, cols + 1))
        elif kind == "rows":
            # the right number of elements in a matrix whose row count is not the product of the row modes
            total = rows * cols
            cands = [q for q in range(1, total + 1) if total % q == 0 and q != rows]
            if not cands:
                return None
            q = c.g.choice(cands)
            data = rand_array(c.g, (q, total // q))
        else:
            data = rand_array(c.g, (rows, cols))
            cd = list(range(0, n - 1)) if n > 2 else [0]
        return {"operands": [c.fresh(np.asfortranarray(data))], "rdims": rd, "cdims": cd, "tshape": shape}

    def bad_tenmat(ops, st):
        sh = st["tshape"]
        part = sorted(st["rdims"] + st["cdims"]) == list(range(len(sh)))
        if (not part) or ops[0].size != int(np.prod(sh)):
            return True
        rows = int(np.prod([sh[d] for d in st["rdims"]]))
        return tuple(ops[0].shape) != (rows, int(np.prod(sh)) // rows)

    def known_tenmat(ops, st):
        # recorded known finding: a matrix with the right number of elements but the wrong number of rows
        sh = st["tshape"]
        if sorted(st["rdims"] + st["cdims"]) != list(range(len(sh))) or ops[0].size != int(np.prod(sh)) or ops[0].ndim != 2:
            return None
        return "tenmat_ctor_row_count"

    bad("tenmat_ctor_inconsistent", None, gen_tenmat_ctor, lambda eng, ops, st: ttb.tenmat(ops[0], np.array(st["rdims"]), np.array(st["cdims"]), tuple(st["tshape"])), bad_tenmat, known=known_tenmat)

    def gen_sptenmat_ctor(c, r):
        shape = list(c.g.choice(c.heap_families()))
        n = len(shape)
        kind = c.g.choice(["partition", "beyond", "count", "at_end", "at_end", "negative"])
        rd, cd = [0], list(range(1, n))
        rows, cols = shape[0], int(np.prod(shape[1:]))
        subs = np.array([[0, 0], [rows - 1, cols - 1]], dtype=int)
        vals = np.array([[1.5], [2.5]])
        if kind == "partition":
            cd = cd[:-1] if len(cd) > 1 else [0]
        elif kind == "beyond":
            subs[1, 0] = rows + 1
        elif kind == "negative":
            subs[0, c.g.randrange(2)] = -1
        elif kind == "at_end":
            # the first index that no longer exists (row count / column count itself)
            if c.g.random() < 0.4:
                subs[1, 0] = rows
            else:
                # (in the first or in the last row: a column beyond the end of an earlier row is still a position
                # inside the matrix when rows are laid out one after the other)
                subs[c.g.choice([0, 0, 1]), 1] = cols + c.g.choice([0, 0, 1])
        else:
            vals = vals[:1]
        return {"operands": [c.fresh(subs), c.fresh(vals)], "rdims": rd, "cdims": cd, "tshape": shape}

    def bad_sptenmat(ops, st):
        sh = st["tshape"]
        if sorted(st["rdims"] + st["cdims"]) != list(range(len(sh))):
            return True
        rows = int(np.prod([sh[d] for d in st["rdims"]]))
        cols = int(np.prod([sh[d] for d in st["cdims"]]))
        return ops[0].shape[0] != ops[1].shape[0] or bool((ops[0] >= np.array([rows, cols])).any()) or bool((ops[0] < 0).any())

    bad("sptenmat_ctor_inconsistent", None, gen_sptenmat_ctor, lambda eng, ops, st: ttb.sptenmat(ops[0], ops[1], np.array(st["rdims"]), np.array(st["cdims"]), tuple(st["tshape"])), bad_sptenmat)

    # ------------------------------------------------- ttsv / mttkrps / scale / reshape / reconstruct
    def gen_ttsv(c, r):
        # modes of unequal size whose element count still equals (first size) ** order, and plainly unequal ones
        g = c.g
        sh = list(g.choice([(4, 2, 8), (4, 8, 2), (2, 4, 1), (3, 9, 1), (2, 1, 4), (4, 2), (2, 8), (3, 1, 9), (2, 3), (3, 2, 3), (2, 2, 3)]))
        vlen = g.choice([sh[0], sh[0], sh[-1]])
        return {"operands": [c.fresh(np.asfortranarray(rand_array(g, tuple(sh)))), c.fresh(rand_array(g, (vlen,)))], "skip": g.choice([None, None, 0, 1])}

    def run_ttsv(eng, ops, st):
        T = ttb.tensor(ops[0])
        if st["skip"] is None:
            return T.ttsv(ops[1])
        return T.ttsv(ops[1], skip_dim=st["skip"])

    bad("T.ttsv_unequal_modes", None, gen_ttsv, run_ttsv, lambda ops, st: len(set(ops[0].shape)) > 1)

    def gen_mttkrps(c, r):
        x = c.obj(r)
        sh = shp(x)
        if len(sh) < 2:
            return None
        rk = c.g.randint(1, 2)
        fs = [np.asfortranarray(rand_array(c.g, (s, rk))) for s in sh]
        kind = c.g.choice(["rows", "swap", "columns", "length"])
        if kind == "rows":
            j = c.g.randrange(len(sh))
            fs[j] = np.asfortranarray(rand_array(c.g, (sh[j] + c.g.choice([-1, 1]) if sh[j] > 1 else sh[j] + 1, rk)))
        elif kind == "swap":
            pairs = [(i, j) for i in range(len(sh)) for j in range(i + 1, len(sh)) if sh[i] != sh[j]]
            if not pairs:
                return None
            i, j = c.g.choice(pairs)
            fs[i], fs[j] = fs[j], fs[i]
        elif kind == "columns":
            j = c.g.randrange(len(sh))
            fs[j] = np.asfortranarray(rand_array(c.g, (sh[j], rk + 1)))
        else:
            fs = fs[:-1]
        return {"operands": [r] + [c.fresh(f) for f in fs]}

    def bad_mttkrps(ops, st):
        sh = shp(ops[0])
        fs = ops[1:]
        return len(fs) != len(sh) or any(f.shape[0] != s for f, s in zip(fs, sh)) or len({f.shape[1] for f in fs}) > 1

    bad("T.mttkrps_factors", "T", gen_mttkrps, lambda eng, ops, st: ops[0].mttkrps(list(ops[1:])), bad_mttkrps)

    def gen_s_scale_matrix(c, r):
        sh = shp(c.obj(r))
        d = c.g.randrange(len(sh))
        return {"operands": [r, c.fresh(np.asfortranarray(rand_array(c.g, (sh[d], c.g.randint(2, 3)))))], "dim": d}

    bad("S.scale_factor_is_a_matrix", "S", gen_s_scale_matrix, lambda eng, ops, st: ops[0].scale(ops[1], np.array([st["dim"]])), lambda ops, st: ops[1].ndim == 2 and ops[1].shape[1] > 1)

    def gen_s_reshape_modes(c, r):
        sh = shp(c.obj(r))
        kind = c.g.choice(["repeated", "out_of_range"])
        d = c.g.randrange(len(sh))
        if kind == "repeated":
            return {"operands": [r], "old": [d, d], "shape": [sh[d] * sh[d]]}
        return {"operands": [r], "old": [len(sh) + c.g.randint(0, 1)], "shape": [sh[d]]}

    bad("S.reshape_old_modes_invalid", "S", gen_s_reshape_modes, lambda eng, ops, st: ops[0].reshape(tuple(st["shape"]), old_modes=np.array(st["old"], dtype=int)), lambda ops, st: len(set(st["old"])) != len(st["old"]) or max(st["old"]) >= ops[0].ndims)

    def gen_reconstruct(c, r):
        x = c.obj(r)
        sh = shp(x)
        if len(sh) < 2:
            return None
        kind = c.g.choice(["repeated", "out_of_range"])
        d = c.g.randrange(len(sh))
        modes = [d, d] if kind == "repeated" else [d, len(sh) + c.g.randint(0, 1)]
        return {"operands": [r], "modes": modes}

    bad(
        "TT.reconstruct_modes_invalid",
        "TT",
        gen_reconstruct,
        lambda eng, ops, st: ops[0].reconstruct([np.array([0]) for _ in st["modes"]], modes=list(st["modes"])),
        lambda ops, st: len(set(st["modes"])) != len(st["modes"]) or max(st["modes"]) >= ops[0].ndims,
    )

    # ---------------------------------------------------------------------- tenmat ops
    def gen_tm_pair(c, r):
        m = c.obj(r)
        o = c.pick("TM", lambda x: tuple(x.shape) != tuple(m.shape))
        return None if o is None else {"operands": [r, o], "which": c.g.choice(["add", "sub"])}

    bad("TM.add_shape", "TM", gen_tm_pair, lambda eng, ops, st: (ops[0] + ops[1]) if st["which"] == "add" else (ops[0] - ops[1]), lambda ops, st: tuple(ops[0].shape) != tuple(ops[1].shape))

    def gen_tm_unfoldings(c, r):
        # two matricizations of one and the same tensor (equal tensor shapes) whose matrices differ in shape; the
        # all-rows against the all-columns form, and tensors with singleton modes, give shapes that broadcast
        g = c.g
        n = g.randint(2, 3)
        sh = [g.randint(1, 3) for _ in range(n)]
        if g.random() < 0.4:
            sh[g.randrange(n)] = 1
        modes = list(range(n))
        if g.random() < 0.5:
            rd1, rd2 = modes, []
        else:
            rd1 = sorted(g.sample(modes, g.randint(0, n)))
            rd2 = sorted(g.sample(modes, g.randint(0, n)))
        return {"operands": [c.fresh(np.asfortranarray(rand_array(g, tuple(sh))))], "rd1": rd1, "rd2": rd2, "which": g.choice(["add", "sub", "rsub", "radd"])}

    def tm_of(arr, rd):
        T = ttb.tensor(arr)
        cd = [d for d in range(T.ndims) if d not in rd]
        return T.to_tenmat(rdims=np.array(rd, dtype=int), cdims=np.array(cd, dtype=int))

    def run_tm_unfoldings(eng, ops, st):
        a, b = tm_of(ops[0], st["rd1"]), tm_of(ops[0], st["rd2"])
        return {"add": lambda: a + b, "sub": lambda: a - b, "rsub": lambda: a.__rsub__(b), "radd": lambda: a.__radd__(b)}[st["which"]]()

    def bad_tm_unfoldings(ops, st):
        return tuple(tm_of(ops[0], st["rd1"]).shape) != tuple(tm_of(ops[0], st["rd2"]).shape)

    bad("TM.add_other_unfolding", None, gen_tm_unfoldings, run_tm_unfoldings, bad_tm_unfoldings)

    def gen_tm_mul(c, r):
        m = c.obj(r)
        o = c.pick("TM", lambda x: x.shape[0] != m.shape[1])
        return None if o is None else {"operands": [r, o]}

    bad("TM.mul_inner_dimension", "TM", gen_tm_mul, lambda eng, ops, st: ops[0] * ops[1], lambda ops, st: ops[0].shape[1] != ops[1].shape[0])

    # ---------------------------------------------------------------- Kruskal specifics
    bad("K.extract_out_of_range", "K", lambda c, r: {"operands": [r], "idx": c.obj(r).ncomponents + c.g.randint(0, 1)}, lambda eng, ops, st: ops[0].extract(st["idx"]), lambda ops, st: st["idx"] >= ops[0].ncomponents)
    bad("K.arrange_permutation_length", "K", lambda c, r: {"operands": [r, c.fresh(np.arange(c.obj(r).ncomponents + 1, dtype=int))]}, lambda eng, ops, st: ops[0].arrange(permutation=ops[1]), lambda ops, st: ops[1].shape[0] != ops[0].ncomponents)
    bad("K.arrange_both_arguments", "K", lambda c, r: {"operands": [r, c.fresh(np.arange(c.obj(r).ncomponents, dtype=int))]}, lambda eng, ops, st: ops[0].arrange(weight_factor=0, permutation=ops[1]), lambda ops, st: True)
    bad("K.normalize_mode_out_of_range", "K", lambda c, r: {"operands": [r], "mode": c.obj(r).ndims + c.g.randint(0, 1)}, lambda eng, ops, st: ops[0].normalize(mode=st["mode"]), lambda ops, st: st["mode"] >= ops[0].ndims)
    bad("K.redistribute_out_of_range", "K", lambda c, r: {"operands": [r], "mode": c.obj(r).ndims + c.g.randint(0, 1)}, lambda eng, ops, st: ops[0].redistribute(st["mode"]), lambda ops, st: st["mode"] >= ops[0].ndims)

    for kind in ("T", "S"):
        def gen_collapse_dims(c, r):
            n = c.obj(r).ndims
            dims = [n + c.g.randint(0, 2)]
            if n >= 2 and c.g.random() < 0.4:
                dims = [c.g.randrange(n)] + dims
            return {"operands": [r], "dims": dims}

        bad(kind + ".collapse_dims_out_of_range", kind, gen_collapse_dims, lambda eng, ops, st: ops[0].collapse(np.array(st["dims"], dtype=int)), lambda ops, st: max(st["dims"]) >= ops[0].ndims)

    bad("K.redistribute_negative_mode", "K", lambda c, r: {"operands": [r], "mode": -c.g.randint(1, c.obj(r).ndims)}, lambda eng, ops, st: ops[0].redistribute(st["mode"]), lambda ops, st: st["mode"] < 0)
    bad("K.nvecs_negative_mode", "K", lambda c, r: {"operands": [r], "mode": -c.g.randint(1, c.obj(r).ndims)}, lambda eng, ops, st: ops[0].nvecs(st["mode"], 1), lambda ops, st: st["mode"] < 0)

    def gen_update_negative(c, r):
        k = c.obj(r)
        if k.ndims < 2:
            return None
        m = -c.g.randint(2, k.ndims)  # (-1 is the documented name of the weights)
        return {"operands": [r, c.fresh(rand_array(c.g, (k.shape[m] * k.ncomponents,)))], "mode": m}

    bad("K.update_negative_mode", "K", gen_update_negative, lambda eng, ops, st: ops[0].update(st["mode"], ops[1]), lambda ops, st: st["mode"] < -1)

    def gen_arrange_not_a_permutation(c, r):
        k = c.obj(r)
        if k.ncomponents < 2:
            return None
        p = list(range(k.ncomponents))
        p[c.g.randrange(1, k.ncomponents)] = p[0]
        return {"operands": [r, c.fresh(np.array(p, dtype=int))]}

    bad("K.arrange_not_a_permutation", "K", gen_arrange_not_a_permutation, lambda eng, ops, st: ops[0].arrange(permutation=ops[1]), lambda ops, st: len(set(ops[1].tolist())) != ops[1].shape[0])

    def gen_fixsigns_components(c, r):
        k = c.obj(r)
        rk = k.ncomponents + c.g.choice([-1, 1, 2])
        if rk < 1:
            return None
        return {"operands": [r] + [c.fresh(np.asfortranarray(rand_array(c.g, (s, rk)))) for s in shp(k)]}

    bad("K.fixsigns_other_component_count", "K", gen_fixsigns_components, lambda eng, ops, st: ops[0].fixsigns(ttb.ktensor(list(ops[1:]))), lambda ops, st: ops[1].shape[1] != ops[0].ncomponents)

    def gen_update(c, r, surplus):
        k = c.obj(r)
        m = c.g.randrange(k.ndims)
        need = k.shape[m] * k.ncomponents
        if not surplus and need < 2:
            return None
        ln = need + c.g.randint(1, 2) if surplus else need - 1
        return {"operands": [r, c.fresh(rand_array(c.g, (ln,)))], "mode": m}

    bad("K.update_too_short", "K", lambda c, r: gen_update(c, r, False), lambda eng, ops, st: ops[0].update(st["mode"], ops[1]), lambda ops, st: ops[1].shape[0] < shp(ops[0])[st["mode"]] * ops[0].ncomponents)
    bad("K.update_length", "K", lambda c, r: gen_update(c, r, True), lambda eng, ops, st: ops[0].update(st["mode"], ops[1]), lambda ops, st: ops[1].shape[0] > shp(ops[0])[st["mode"]] * ops[0].ncomponents, known="ktensor_update_surplus")

    def gen_update_multi(c, r):
        k = c.obj(r)
        if k.ndims < 2:
            return None
        need = sum(k.shape[m] * k.ncomponents for m in range(k.ndims))
        return {"operands": [r, c.fresh(rand_array(c.g, (need - 1,)))]}

    bad(
        "K.update_all_modes_too_short",
        "K",
        gen_update_multi,
        lambda eng, ops, st: ops[0].update(np.arange(ops[0].ndims), ops[1]),
        lambda ops, st: ops[1].shape[0] < sum(s * ops[0].ncomponents for s in shp(ops[0])),
    )
    bad("K.arrange_weight_factor_out_of_range", "K", lambda c, r: {"operands": [r], "wf": c.obj(r).ndims + c.g.randint(0, 1)}, lambda eng, ops, st: ops[0].arrange(weight_factor=st["wf"]), lambda ops, st: st["wf"] >= ops[0].ndims)
    bad("K.normalize_weight_factor_out_of_range", "K", lambda c, r: {"operands": [r], "wf": c.obj(r).ndims + c.g.randint(0, 1)}, lambda eng, ops, st: ops[0].normalize(weight_factor=st["wf"]), lambda ops, st: st["wf"] >= ops[0].ndims)

    def gen_fixsigns_other(c, r):
        k = c.obj(r)
        o = c.pick("K", lambda x: shp(x) != shp(k) or x.ncomponents != k.ncomponents, exclude=(r,))
        return None if o is None else {"operands": [r, o]}

    bad("K.fixsigns_other_mismatch", "K", gen_fixsigns_other, lambda eng, ops, st: ops[0].fixsigns(ops[1]), lambda ops, st: shp(ops[0]) != shp(ops[1]))

    def gen_from_vector(c, r):
        k = c.obj(r)
        return {"operands": [r, c.fresh(rand_array(c.g, (2 * (sum(k.shape) + 1) + 1,)))]}

    def gen_from_vector_long(c, r):
        # a long data vector (hundreds of thousands of entries) that is a few entries too long
        k = c.obj(r)
        lam = c.g.random() < 0.5
        stride = sum(shp(k)) + (1 if lam else 0)
        n = stride * (c.g.randint(200000, 400000) // stride) + c.g.randint(1, min(3, stride - 1))
        return {"operands": [r], "n": n, "lam": lam}

    bad(
        "K.from_vector_long_vector",
        "K",
        gen_from_vector_long,
        lambda eng, ops, st: ttb.ktensor.from_vector(np.full(st["n"], 0.5), tuple(ops[0].shape), st["lam"]),
        lambda ops, st: st["n"] % (sum(shp(ops[0])) + (1 if st["lam"] else 0)) != 0,
        weight=0.3,
    )

    bad("K.from_vector_length", "K", gen_from_vector, lambda eng, ops, st: ttb.ktensor.from_vector(ops[1], tuple(ops[0].shape), True), lambda ops, st: (ops[1].shape[0] - 0) % (sum(shp(ops[0])) + 1) != 0)

    # -------------------------------------------------------------------- module level
    def gen_khatrirao(c, r):
        kind = c.g.choice(["columns", "not_matrix"])
        if kind == "columns":
            # two or three matrices, column counts 1 .. 3 with at least two different ones, in any position; the
            # product taken forwards or in reverse
            n = c.g.randint(2, 3)
            for _ in range(20):
                cols = [c.g.randint(1, 3) for _ in range(n)]
                if len(set(cols)) > 1:
                    break
            else:
                cols = [1, 2] + [2] * (n - 2)
            return {"operands": [c.fresh(np.asfortranarray(rand_array(c.g, (c.g.randint(1, 3), k)))) for k in cols], "reverse": c.g.random() < 0.4}
        return {"operands": [c.fresh(np.asfortranarray(rand_array(c.g, (2, 2)))), c.fresh(rand_array(c.g, (2, 2, 2)))], "reverse": False}

    bad("khatrirao_inconsistent", None, gen_khatrirao, lambda eng, ops, st: ttb.khatrirao(*ops, reverse=bool(st.get("reverse"))), lambda ops, st: any(o.ndim != 2 for o in ops) or len({o.shape[1] for o in ops}) > 1)

    def gen_sptenrand(c, r):
        return {"operands": [], "shape": list(c.g.choice(c.heap_families())), "kind": c.g.choice(["both", "neither", "density_zero", "density_big"])}

    def run_sptenrand(eng, ops, st):
        sh = tuple(st["shape"])
        k = st["kind"]
        if k == "both":
            return ttb.sptenrand(sh, density=0.5, nonzeros=2)
        if k == "neither":
            return ttb.sptenrand(sh)
        if k == "density_zero":
            return ttb.sptenrand(sh, density=0.0)
        return ttb.sptenrand(sh, density=1.5)

    bad("sptenrand_arguments", None, gen_sptenrand, run_sptenrand, lambda ops, st: True)

    # --------------------------------------------------------------------- algorithms
    def gen_alg(c, r, names):
        x = c.obj(r)
        sh = shp(x)
        if len(sh) < 2:
            return None
        kind = c.g.choice(names)
        st: Dict[str, Any] = {"operands": [r], "kind": kind}
        if kind in ("guess_shape", "guess_rank"):
            k = c.pick("K", (lambda o: shp(o) != sh) if kind == "guess_shape" else (lambda o: shp(o) == sh))
            if k is None:
                return None
            st["operands"] = [r, k]
        return st

    def run_cp_als(eng, ops, st):
        x = ops[0]
        n = x.ndims
        k = st["kind"]
        if k == "optdims_out_of_range":
            return ttb.cp_als(x, 1, optdims=[0, n + 3], printitn=0, maxiters=1)
        if k == "optdims_negative":
            return ttb.cp_als(x, 1, optdims=[0, -(n + 1)], printitn=0, maxiters=1)
        if k == "rank":
            return ttb.cp_als(x, 0, printitn=0, maxiters=1)
        if k == "rank_negative":
            return ttb.cp_als(x, -2, printitn=0, maxiters=1)
        if k == "dimorder":
            return ttb.cp_als(x, 1, dimorder=[0] * n, printitn=0, maxiters=1)
        if k == "dimorder_short":
            return ttb.cp_als(x, 1, dimorder=list(range(n - 1)), printitn=0, maxiters=1)
        if k == "init_string":
            return ttb.cp_als(x, 1, init="zeros", printitn=0, maxiters=1)
        if k == "guess_shape":
            return ttb.cp_als(x, ops[1].ncomponents, init=ops[1], printitn=0, maxiters=1)
        return ttb.cp_als(x, ops[1].ncomponents + 1, init=ops[1], printitn=0, maxiters=1)

    def bad_alg(ops, st):
        if st["kind"] == "guess_shape":
            return shp(ops[0]) != shp(ops[1])
        return ops[0].ndims >= 2

    bad("cp_als_options", ("T", "S"), lambda c, r: gen_alg(c, r, ["rank", "rank_negative", "dimorder", "dimorder_short", "init_string", "guess_shape", "guess_rank", "optdims_out_of_range", "optdims_negative"]), run_cp_als, bad_alg)

    def run_cp_apr(eng, ops, st):
        x = ops[0]
        k = st["kind"]
        if k == "rank":
            return ttb.cp_apr(x, 0, printitn=0, maxiters=1)
        if k == "algorithm":
            return ttb.cp_apr(x, 1, algorithm="newton", printitn=0, maxiters=1)
        if k == "init_string":
            return ttb.cp_apr(x, 1, init="ones", printitn=0, maxiters=1)
        if k == "negative_data":
            neg = ttb.tensor(-np.abs(x.data) - 1.0) if isinstance(x, ttb.tensor) else x.elemfun(lambda v: -np.abs(v) - 1.0)
            return ttb.cp_apr(neg, 1, printitn=0, maxiters=1)
        if k == "guess_shape":
            return ttb.cp_apr(x, ops[1].ncomponents, init=ops[1], printitn=0, maxiters=1)
        return ttb.cp_apr(x, ops[1].ncomponents + 1, init=ops[1], printitn=0, maxiters=1)

    def bad_apr(ops, st):
        if st["kind"] == "guess_shape":
            return shp(ops[0]) != shp(ops[1])
        if st["kind"] == "negative_data":
            x = ops[0]
            return isinstance(x, ttb.tensor) or x.nnz > 0
        return ops[0].ndims >= 2

    bad("cp_apr_options", ("T", "S"), lambda c, r: gen_alg(c, r, ["rank", "algorithm", "init_string", "negative_data", "guess_shape", "guess_rank"]), run_cp_apr, bad_apr)

    def gen_hosvd(c, r):
        x = c.obj(r)
        n = x.ndims
        return {"operands": [r], "kind": c.g.choice(["ranks_short", "ranks_long", "dimorder"])}

    def run_hosvd(eng, ops, st):
        x = ops[0]
        n = x.ndims
        if st["kind"] == "ranks_short":
            return ttb.hosvd(x, 0.1, verbosity=0, ranks=[1] * (n - 1))
        if st["kind"] == "ranks_long":
            return ttb.hosvd(x, 0.1, verbosity=0, ranks=[1] * (n + 1))
        return ttb.hosvd(x, 0.1, verbosity=0, dimorder=[0] * n)

    bad("hosvd_options", "T", gen_hosvd, run_hosvd, lambda ops, st: ops[0].ndims >= 2)

    def gen_tucker(c, r):
        x = c.obj(r)
        if x.ndims < 2:
            return None
        kind = c.g.choice(["init_length", "init_shape", "dimorder", "init_string", "init_shape_any_mode", "init_shape_any_mode", "ranks_length"])
        st: Dict[str, Any] = {"operands": [r], "kind": kind, "ranks": [1] * x.ndims}
        if kind == "ranks_length":
            st["ranks"] = [1] * (x.ndims + c.g.choice([-1, 1, 2]))
            if len(st["ranks"]) <= 1:
                return None  # a single rank is the documented scalar form
            return st
        if kind == "init_shape_any_mode":
            # a sweep order of the caller's choice, and a factor of the wrong shape in a mode that is not swept first
            # (the factor of the mode swept first is documented as unused)
            n = x.ndims
            order = list(range(n))
            c.g.shuffle(order)
            j = c.g.choice(order[1:])
            fs = [np.asfortranarray(rand_array(c.g, (s, 1))) for s in shp(x)]
            fs[j] = np.asfortranarray(rand_array(c.g, (shp(x)[j], 2) if c.g.random() < 0.6 else (shp(x)[j] + 1, 1)))
            st["operands"] = [r] + [c.fresh(f) for f in fs]
            st["order"] = order
            st["j"] = j
            return st
        if kind in ("init_length", "init_shape"):
            fs = [np.asfortranarray(rand_array(c.g, (s, 1))) for s in shp(x)]
            if kind == "init_length":
                fs = fs[:-1]
            else:
                fs[-1] = np.asfortranarray(rand_array(c.g, (shp(x)[-1] + 1, 1)))
            st["operands"] = [r] + [c.fresh(f) for f in fs]
        return st

    def run_tucker(eng, ops, st):
        x = ops[0]
        n = x.ndims
        k = st["kind"]
        if k in ("init_length", "init_shape"):
            return ttb.tucker_als(x, st["ranks"], init=list(ops[1:]), printitn=0, maxiters=1)
        if k == "init_shape_any_mode":
            return ttb.tucker_als(x, st["ranks"], init=list(ops[1:]), dimorder=list(st["order"]), printitn=0, maxiters=1)
        if k == "dimorder":
            return ttb.tucker_als(x, st["ranks"], dimorder=[0] * n, printitn=0, maxiters=1)
        if k == "ranks_length":
            return ttb.tucker_als(x, list(st["ranks"]), printitn=0, maxiters=1)
        return ttb.tucker_als(x, st["ranks"], init="ones", printitn=0, maxiters=1)

    def bad_tucker(ops, st):
        x = ops[0]
        if st["kind"] == "init_length":
            return len(ops) - 1 != x.ndims
        if st["kind"] == "init_shape":
            return len(ops) - 1 == x.ndims and ops[-1].shape[0] != shp(x)[-1]
        if st["kind"] == "init_shape_any_mode":
            j = st["j"]
            return len(ops) - 1 == x.ndims and st["order"][0] != j and tuple(ops[1 + j].shape) != (shp(x)[j], 1)
        if st["kind"] == "ranks_length":
            return len(st["ranks"]) not in (1, x.ndims)
        return x.ndims >= 2

    bad("tucker_als_options", "T", gen_tucker, run_tucker, bad_tucker)

    def gen_gcp(c, r):
        x = c.obj(r)
        if x.ndims < 2:
            return None
        sparse = c.heap.kinds[r] == "S"
        kinds = ["objective_tuple", "optimizer", "init_string", "guess_rank"] + (["lbfgsb_sparse", "mask_sparse"] if sparse else ["mask_stochastic"])
        kind = c.g.choice(kinds)
        if kind == "guess_rank":
            rk = c.g.randint(2, 3)
            return {"operands": [r] + [c.fresh(np.asfortranarray(rand_array(c.g, (s_, rk), 0.1, 1.0))) for s_ in shp(x)], "kind": kind, "rank": rk - 1}
        return {"operands": [r], "kind": kind}

    def run_gcp(eng, ops, st):
        from pyttb.gcp.handles import Objectives, gaussian, gaussian_grad
        from pyttb.gcp.optimizers import LBFGSB, SGD

        x = ops[0]
        k = st["kind"]
        sparse = isinstance(x, ttb.sptensor)
        good = SGD(max_iters=1, epoch_iters=1, printitn=0) if sparse else LBFGSB(maxiter=1, iprint=-1)
        if k == "guess_rank":
            return ttb.gcp_opt(x, st["rank"], Objectives.GAUSSIAN, good, init=ttb.ktensor([f.copy() for f in ops[1:]]), printitn=0)
        if k == "objective_tuple":
            return ttb.gcp_opt(x, 1, (gaussian, gaussian_grad), good, printitn=0)
        if k == "optimizer":
            return ttb.gcp_opt(x, 1, Objectives.GAUSSIAN, "lbfgsb", printitn=0)
        if k == "init_string":
            return ttb.gcp_opt(x, 1, Objectives.GAUSSIAN, good, init="zeros", printitn=0)
        if k == "lbfgsb_sparse":
            return ttb.gcp_opt(x, 1, Objectives.GAUSSIAN, LBFGSB(maxiter=1, iprint=-1), printitn=0)
        if k == "mask_sparse":
            return ttb.gcp_opt(x, 1, Objectives.GAUSSIAN, good, mask=ttb.tenones(x.shape), printitn=0)
        return ttb.gcp_opt(x, 1, Objectives.GAUSSIAN, SGD(max_iters=1, epoch_iters=1, printitn=0), mask=ttb.tenones(x.shape), printitn=0)

    def bad_gcp(ops, st):
        sparse = isinstance(ops[0], ttb.sptensor)
        if st["kind"] in ("lbfgsb_sparse", "mask_sparse"):
            return sparse
        if st["kind"] == "mask_stochastic":
            return not sparse
        if st["kind"] == "guess_rank":
            return ops[1].shape[1] != st["rank"]
        return ops[0].ndims >= 2

    bad("gcp_opt_options", ("T", "S"), gen_gcp, run_gcp, bad_gcp)
