"""Which engine decides which property, and the run budgets of each tier."""

from __future__ import annotations

from typing import List

REAL_ALL = [
    "pyttb (all modules, unmodified, imported from the working tree)",
    "numpy",
    "scipy (LAPACK, ARPACK, L-BFGS-B)",
]


def make_engine(prop: str, steer: List[str]):
    if prop == "C04":
        from .engine_a import EngineA

        return EngineA("C04", steer)
    if prop == "C11":
        from .engine_c11 import EngineC11

        return EngineC11("C11", steer)
    if prop == "C13":
        from .engine_c13 import EngineC13

        return EngineC13("C13", steer)
    if prop == "C18":
        from .engine_c18 import EngineC18

        return EngineC18("C18", steer)
    if prop == "C16":
        from .engine_d import EngineD

        return EngineD("C16", steer)
    if prop == "C20":
        from .engine_e import EngineE

        return EngineE("C20", steer)
    if prop in ("C05",):
        from .engine_b import EngineB

        return EngineB(prop, steer)
    if prop == "C19":
        return Engine19(steer)
    raise KeyError(prop)


NOT_APPLICABLE = {
    "C01": "pure conversion functions of their input: no clock, random stream, file, collaborator, retained state or failure path for a simulator to vary (DESIGN.md section 4)",
    "C02": "pure multilinear kernels; a function of the arguments only (DESIGN.md section 4)",
    "C03": "pure element-wise operators; a function of the arguments only (DESIGN.md section 4)",
    "C06": "quantifies over the stored order of an input value; results are a pure function of that input (engine A reaches unsorted orders through histories but C06 itself has no history, fault or schedule)",
    "C07": "pure index maps",
    "C08": "single-call re-parameterisations of one object: no nondeterminism, fault or history in the statement",
    "C09": "CP-ALS has no deadline, I/O or retained state; its random start and print-only branches are decided under C18, non-modification of operands under C05; the numerical contract is a pure function of the inputs",
    "C10": "same reasoning as C09 (HOSVD is deterministic; Tucker-ALS random start is decided under C18)",
    "C12": "pure calculus identities of the loss functions",
    "C14": "pure linear algebra (the ARPACK start-vector state is put behind a seam for harness determinism, but the property is insensitive to it by construction)",
    "C15": "pure function of its arguments",
    "C17": "pure helper functions",
}

ENGINES = [
    {"name": "object-heap", "path": "sim/engine_b.py", "serves_properties": ["C05", "C19"], "kind_free_text": "heap of live objects of all classes; catalogued operations, in-place perturbations and malformed requests; snapshot + alias-group reference model"},
    {"name": "generator-world", "path": "sim/engine_e.py", "serves_properties": ["C20"], "kind_free_text": "seed search over the stream-dependent generators (each call twice under the same global seed) plus direct oracles for the deterministic generators and the aggregating constructor"},
    {"name": "io-world", "path": "sim/engine_d.py", "serves_properties": ["C16"], "kind_free_text": "export/import histories over a small path namespace on a simulated open() with buffering configurations and injected OSError at the k-th write/flush/seek/close"},
    {"name": "solver-world/presentation", "path": "sim/engine_c18.py", "serves_properties": ["C18"], "kind_free_text": "paired runs of every decomposition algorithm in the simulated world (seed, verbosity, clock, interpreter, call history, representation, scale, relabelling)"},
    {"name": "solver-world/gcp", "path": "sim/engine_c13.py", "serves_properties": ["C13"], "kind_free_text": "GCP samplers under seed search; histories of solves (incl. aborted ones) on one optimizer object with recording/faulting sampler proxy, simulated clock, differential vs. fresh optimizer"},
    {"name": "tensor-history", "path": "sim/engine_a.py", "serves_properties": ["C04", "C19"], "kind_free_text": "seeded read/write histories on a dense+sparse pair vs. a reference model; malformed requests as faults"},
    {"name": "solver-world/cp_apr", "path": "sim/engine_c11.py", "serves_properties": ["C11"], "kind_free_text": "CP-APR under a simulated clock; deadline fired at every iteration boundary"},
]

class Engine19:
    """C19 = malformed-request injection into the histories of engine A (indexing) and engine B (everything else)."""

    name = "tensor-history + object-heap (malformed requests)"

    def __init__(self, steer):
        from .engine_a import EngineA
        from .engine_b import EngineB

        from .driver import known_triggers

        self.a = EngineA("C19", sorted(set(steer) | set(known_triggers("C04"))))
        self.b = EngineB("C19", steer)

    def run(self, run_seed, tier):
        from .kernel import H

        which = "A" if H(run_seed, "which") % 10 < 3 else "B"
        res = (self.a if which == "A" else self.b).run(run_seed, tier)
        res.init = dict(res.init, engine=which)
        return res

    def replay(self, rec):
        eng = self.a if rec["init"].get("engine") == "A" else self.b
        res = eng.replay(rec)
        return res

    def simplify(self, rec):
        if rec["init"].get("engine") == "A":
            yield from self.a.simplify(rec)


CHECKS = {
    "C04": {
        "manifest": {
            "engine": "tensor-history",
            "design_ref": "DESIGN.md section 3, engine A",
            "level_text": "Seeded search over histories: each run drives a dense tensor and a sparse tensor in lock-step through 4-30 reads/writes in every documented key form (growth, order growth, zero writes, mixed batches, unsorted sparse storage, malformed requests as faults) and compares the full state of both with a dict-of-cells reference model after every step. A clean batch is evidence over the sampled histories, not a proof; violations are ddmin-minimised and replayed in fresh interpreters before being reported.",
            "level_note": "Trusted: the reference model (sim/engine_a.py Model), numpy. Narrowings: no duplicate positions in one batch, no length-1 index lists, float64 or int64 values, slice strides and negative slice bounds only where nothing grows; index lists as python lists or numpy arrays; a tensor may be assigned into a region of itself. 6% of the runs use tensors of several hundred elements with requests naming 200-1200 positions; 3% are sparse-only histories on modes of 2**24..2**40 (no dense twin; key forms for which the library materialises the extent of a mode are left out there). Two recorded known findings (dense multi-index-list regions) are driven through the subscript-array form on the dense side. In half of the runs the integers of a key arrive as numpy integer types of every width and signedness (scalars, index and subscript arrays, also F-ordered, transposed or strided views), and scalar right-hand sides partly as python ints. Malformed requests (wrong value counts, right-hand sides of another shape also where the key would grow the receiver, linear reads and writes at and beyond the element count) are interleaved at a low rate; the history continues after them and the state check judges what they did.",
            "technique": "deterministic simulation: seeded history search against an executable reference model (refinement), ddmin + JSON replay",
        },
        "level": "exploration",
        "quick": {"runs": 16000, "wall": 150},
        "thorough": {"runs": 600000, "wall": 1500},
        "chunk": 50,
        "rule": (
            "one case = one seeded history (4-30 steps) of reads and writes in every documented key form, "
            "applied in lock-step to a dense tensor, a sparse tensor and a dict-of-cells reference model, "
            "with full-state comparison after every step; run_seed = sha256(root|C04|r). Non-trivial = at "
            "least 3 executed steps of which at least 2 writes changed the abstract state; distinct = "
            "distinct digest of (initial state, concrete step list, observations)."
        ),
        "state_measure": "hash of (shape, set of non-zero positions, sparse storage sorted/unsorted, last operation)",
        "components": {
            "real": REAL_ALL,
            "simulated": ["none needed: the history itself is the schedule; warnings are captured"],
        },
        "assumptions": [
            "narrowings listed in DESIGN.md section 3 (engine A): no duplicate positions within one batch, no length-1 index lists, slice strides only in non-growing requests",
            "sampling, not enumeration",
        ],
    },
    "C11": {
        "manifest": {
            "engine": "solver-world/cp_apr",
            "design_ref": "DESIGN.md section 3, engine C, C11",
            "level_text": "For every sampled problem the simulated clock fires the CP-APR deadline at every outer-iteration boundary in turn (complete enumeration of deadline positions per problem), plus sampled clock anomalies; the whole C11 contract (rank/shape, non-negativity, reported objective == independently recomputed Poisson log-likelihood, one non-negative KKT entry per iteration performed -- counted independently through the clock seam --, iteration limit, likelihood >= start, data and guess untouched) is checked at every return, and a cut by time must equal the cut by iteration count up to rounding (1e-9 relative; see DESIGN.md section 11, last entry). Problems themselves are sampled.",
            "level_note": "Trusted: harness' own Kruskal-to-dense and log-likelihood (20 lines), SimClock. Order >= 2 only. PQNR's documented 'first iterate is bad' abort ends the run and is counted. 8% of the problems are planted next to a maximiser whose factors hold exact zeros (some with a component switched off by a zero weight); 15% of the explicit guesses store one factor at another scale with the weights compensating. One recorded known finding (MU with kappa >= 0.1) is tolerated by name only when the solver reports that its offset was applied.",
            "technique": "deterministic simulation: scripted clock seam, enumeration of deadline positions, differential oracle time-cut vs count-cut",
        },
        "level": "fault_enumeration",
        "quick": {"runs": 2400, "wall": 200},
        "thorough": {"runs": 60000, "wall": 1500},
        "chunk": 10,
        "rule": (
            "one case = one sampled CP-APR problem (count tensor dense/sparse with empty slices, rank, "
            "non-negative guess incl. all-zero rows, algorithm mu/pdnr/pqnr, option set) run under a "
            "simulated clock with the deadline fired at EVERY outer-iteration boundary in turn (complete "
            "enumeration per problem) plus sampled clock kinds (backward jump, freeze, elapsed==stoptime, "
            "stoptime=0, clock running backwards), and -- in half of the runs -- a solve, an in-place edit of the caller's "
            "data object (one count moved; same shape and nnz) and a second solve; the C11 contract is checked at every "
            "return, a cut by time must equal the cut by count, and the solve after the edit must equal a solve on a copy. Non-trivial = at least one deadline cut executed or >= 3 solves; "
            "distinct = distinct digest of (problem, steps, observations)."
        ),
        "state_measure": "hash of (algorithm, order, dense/sparse, rank, random/explicit guess, iterations of the baseline, step kind, deadline position / clock kind, precompinds, inexact)",
        "components": {
            "real": REAL_ALL,
            "simulated": ["time module as seen by pyttb.cp_apr (SimClock)", "stdout sink", "ARPACK start vector", "np.random seeded per solve"],
        },
        "assumptions": [
            "order >= 2 (the dense log-likelihood matricises on mode 1)",
            "PQNR's abort 'L-BFGS first iterate is bad' (pinned by the repository's own tests as expected) ends a run and is counted, not reported",
        ],
    },
    "C13": {
        "manifest": {
            "engine": "solver-world/gcp",
            "design_ref": "DESIGN.md section 3, engine C, C13",
            "level_text": "Seeded search over (a) sampler calls on dense / sparse / nearly-full / nearly-empty data with requests from 0 to beyond the supply, judged against the data by an independent lookup (subscripts inside, values equal data, true zeros, one weight per sample, per-stratum weight totals); (b) histories of 2-5 solves on ONE SGD/Adam/Adagrad/LBFGSB object, some aborted by an injected collaborator fault (sampler, loss callable or user callback raising at its k-th call), each returned solve checked for bounds, best-of-trace, trace length (epochs counted independently through the sampler proxy) and compared (up to rounding, 1e-9 relative) with the same solve on a freshly constructed optimizer under the same random stream and a different clock.",
            "level_note": "Trusted: the loss callables of pyttb.gcp.handles (used by the harness to recompute estimates), harness' own model evaluation, numpy RNG seeding. Semi-stratified zero samples are by definition not rejection-sampled, so the true-zero clause is not applied to them. Runs whose estimates become NaN are counted and excluded from the ordering clauses. 30% of the solves are preceded by the construction (half of the time also the use) of another, differently configured optimizer object of the same class. The zero sampler is also called directly, with and without replacement. Sample steps also use count data in int64 storage and sampler objects configured on a tensor of another size. A NaN result from a starting guess with a finite estimate is a violation. 35% of the fault-free L-BFGS-B steps call the solver object's solve method directly, from a model with non-unit weights.",
            "technique": "deterministic simulation: seeded stream + scripted clock + faulting sampler/loss proxies; history of solves on one object vs. fresh-object reference (differential)",
        },
        "level": "exploration",
        "quick": {"runs": 4000, "wall": 200},
        "thorough": {"runs": 150000, "wall": 1500},
        "chunk": 20,
        "rule": (
            "one case = one run of kind samplers (3-16 sampler calls), stochastic (2-5 solves on one SGD/Adam/Adagrad "
            "object) or lbfgsb (2-4 solves on one LBFGSB object), with collaborator faults injected into ~25% of the "
            "solves; sampler runs end with a sampler built after an in-place edit of the data. Non-trivial = >= 2 solves returned and checked, or >= 3 sampler triples checked; distinct = "
            "distinct digest of (configuration, steps, observations)."
        ),
        "state_measure": "hash of (optimizer class, loss, sparse?, epochs/iterations, index of the solve on the object, aborted-before flag)",
        "components": {
            "real": REAL_ALL,
            "simulated": ["time module as seen by pyttb.gcp.optimizers and pyttb.gcp_opt (SimClock)", "GCPSampler proxy (recording / faulting)", "loss and gradient callables wrapped (faulting)", "logging/stdout sinks", "np.random seeded per solve"],
        },
        "assumptions": ["loss callables of pyttb.gcp.handles are trusted for recomputing estimates"],
    },
    "C18": {
        "manifest": {
            "engine": "solver-world/presentation",
            "design_ref": "DESIGN.md section 3, engine C, C18",
            "level_text": "Seeded search over problems x relations: for CP-ALS, CP-APR (mu/pdnr/pqnr), HOSVD, Tucker-ALS and GCP/L-BFGS-B a base run and a variant of the same problem are executed inside the simulated world (scripted clock, seeded global random stream, ARPACK start vector behind a seam, captured stdout/logging) and the denoted tensors, iteration counts, fits and the random-stream state afterwards are compared. R1-R4 (same seed incl. fresh interpreter under another PYTHONHASHSEED and after unrelated eigen-solves, verbosity, clock, returned guess) are the simulation proper; R5-R7 (dense/sparse, positive scaling, consistent mode relabelling) are metamorphic relations on the same harness.",
            "level_note": "Tolerances: 1e-12 relative, i.e. rounding level, for R1/R2/R3 and their variants (bit identity is counted, not demanded: identical calls differ in the last bits through alignment-dependent numpy/BLAS kernels), 1e-12 (R4; 1e-8 for GCP), 1e-8 (R5-R7) relative on the dense tensor, fits to 1e-6. Iteration counts pinned (stoptol=0, small maxiters) for R4-R7, a live convergence tolerance for the bit-identity relations; GCP relabelling with an explicit guess, <= 2 L-BFGS-B iterations, 1e-6; generic continuous data, admissible ranks; pairs whose eigen-gap at a truncation is < 1e-6 are skipped and counted. ARPACK seam always on. Mode orders are handed over as list, tuple or numpy array (relation R1d: same result in every form). 0.7% of the problems have 70 000-110 000 cells (CP-ALS / MU; dense-vs-sparse and verbosity relations). 12% of the >= 3-way problems have a mode of size one; 8% of the CP-ALS / Tucker-ALS problems hold whole-number data in a narrow integer type; the scale relation is also run with a convergence tolerance in force (the scaled run must stop within one sweep of the base run).",
            "technique": "deterministic simulation: paired runs under controlled seed/clock/output/interpreter seams; metamorphic relations for representation, scale and relabelling",
        },
        "level": "exploration",
        "quick": {"runs": 3000, "wall": 240},
        "thorough": {"runs": 80000, "wall": 1500},
        "chunk": 10,
        "rule": (
            "one case = one algorithm + one sampled problem + 2-5 relation steps (each a base/variant pair) drawn from "
            "R1 same seed, R1p same seed after unrelated calls, R1s other seed with an explicit start, R1f fresh interpreter, "
            "R2 verbosity, R2d verbosity while the simulated deadline fires, R3 clock, R4 returned guess, R5 dense/sparse, "
            "R6 positive scale (1e-9..1e8), R7 mode relabelling, R1g the guess in another form (GCP), R1o the optimizer object used before on a larger problem (GCP), R1h the data object solved before with other content and edited in place; data float or integer-typed counts; "
            "non-trivial = at least 2 pairs compared; distinct = distinct digest of (problem, steps, observations)."
        ),
        "state_measure": "hash of (algorithm, relation, order, kind of initial guess, dimorder given?)",
        "components": {
            "real": REAL_ALL,
            "simulated": ["time module of pyttb.cp_apr / pyttb.gcp.optimizers / pyttb.gcp_opt (SimClock)", "np.random seeded per run", "ARPACK start vector (eigsh/eigs v0)", "stdout / logging sinks", "interpreter hash seed (fresh-process variant)"],
        },
        "assumptions": ["comparison on the denoted dense tensor, not on factor matrices (sign/permutation ambiguity)", "pairs with a near-degenerate spectrum at a truncation are skipped"],
    },
    "C16": {
        "manifest": {
            "engine": "io-world",
            "design_ref": "DESIGN.md section 3, engine D",
            "level_text": "Seeded search over histories of exports, imports and foreign writes on three paths (so files are overwritten by other types, shorter and longer contents, pre-existing longer files) with export_data/import_data running unmodified on a simulated open(): a duck-typed file over a real descriptor whose Python-level calls (write/flush/tell/seek/readline/close) are events, under per-run buffering configurations (line-buffered, 16, 64, 4096, default). 40% of the runs inject OSError(ENOSPC|EIO) at the k-th write/flush/seek/close; an export that raises makes the path indeterminate until the next successful export, an export that returns must round-trip bit for bit. Oracle: type, shape, exact bit patterns of values/weights/factors, subscripts and their order, 1-based subscripts in the file text (independent reader), index_base honoured for foreign files.",
            "level_note": "Trusted: the harness' reference copy of each object and its 30-line text reader; the kernel file system under the scratch directory. numpy's C-level writes cannot be faulted individually (faults are injected at the Python calls that bracket them). float64 values only. 3% of the Kruskal tensors have 255-700 components; 8% of the sparse tensors store their subscripts in a narrow integer type and reach its largest value.",
            "technique": "deterministic simulation: simulated open() seam with call-level fault injection, history over a path namespace vs. a dict reference model",
        },
        "level": "exploration",
        "quick": {"runs": 6000, "wall": 200},
        "thorough": {"runs": 250000, "wall": 1200},
        "chunk": 25,
        "rule": (
            "one case = one history of 4-16 export/import/foreign-write steps (imports by keyword or positional index base; 40% of the imported objects edited in place afterwards) over 3 paths under one buffering configuration "
            "(40% of the runs with OSError injection at a call position); non-trivial = at least 2 round trips compared "
            "bit for bit; distinct = distinct digest of (configuration, steps, observations)."
        ),
        "state_measure": "hash of (object kind, order, buffering, set of file-call kinds seen during the export)",
        "components": {
            "real": REAL_ALL + ["numpy C-level tofile/fromfile", "kernel file system under the scratch directory"],
            "simulated": ["open() as seen by pyttb.export_data and pyttb.import_data (SimFS/SimFile)", "OSError injection at write/flush/seek/close", "buffering configuration", "pre-existing file contents"],
        },
        "assumptions": ["float64 values (the default format is specified for doubles)"],
    },
    "C20": {
        "manifest": {
            "engine": "generator-world",
            "design_ref": "DESIGN.md section 3, engine E",
            "level_text": "Seed search: the random generators (sptenrand, sptensor.from_function, tenrand, ktensor.from_function with a random function) are functions of the process-global numpy stream, which the harness seeds per call from its seed tree; every such call is made twice under the same seed (bit-identical result and identical stream state afterwards required) and judged for exact shape, well-formedness (distinct in-range integer subscripts, one value each), requested count / density incl. near saturation, and values being exactly what the (recording) function returned. The deterministic generators (tenones, tenzeros, tendiag, teneye, sptendiag, tensor.from_function) and sptensor.from_aggregator (arbitrary multiplicities and order, reducers sum/min/max/mean/prod/callables, zero results dropped) are checked by direct oracles in the same runs -- that part is plain generated-input checking and is labelled so.",
            "level_note": "Trusted: harness' dict-based reference for aggregation and diagonals; numpy RNG seeding. For densities the floor or the ceiling of size*density is accepted. One recorded known finding (rejection loop gives up near saturation) is tolerated only where collisions are plausible (n(n-1)/(2 size) > 0.05). Subscripts of the aggregating constructor are handed over in every integer type (int8 ... uint64), partly reaching the type's largest value with the shape left to be inferred.",
            "technique": "deterministic simulation: seed search over the global random stream (paired same-seed calls) + direct oracles for deterministic generators",
        },
        "level": "exploration",
        "quick": {"runs": 6000, "wall": 200},
        "thorough": {"runs": 300000, "wall": 1200},
        "chunk": 25,
        "rule": (
            "one case = one run of 6-20 generator calls (40% of them repeated once or twice, 30% of the results edited in place afterwards), each under its own derived seed for the global numpy stream; "
            "non-trivial = at least 3 calls checked; distinct = distinct digest of (steps, observations)."
        ),
        "state_measure": "hash of (generator, order, reducer, value function, density-or-count)",
        "components": {"real": REAL_ALL, "simulated": ["np.random global stream seeded per call", "recording value functions passed to the generators"]},
        "assumptions": ["floor or ceiling of size*density both accepted as the requested count"],
    },
    "C05": {
        "manifest": {
            "engine": "object-heap",
            "design_ref": "DESIGN.md section 3, engine B",
            "level_text": "Seeded search over histories on a heap of up to 14 live objects of all seven classes plus loose arrays: each step applies one of 231 catalogued public operations (every class, constructors with both copy flags, module functions, the five algorithm entry points) to operands drawn from the heap, or injects a perturbation (an in-place write into one buffer of one live object at that instant). After every step: operands bit-identical to their snapshots, no result buffer shares memory (np.shares_memory, exact) with any live object outside its documented no-copy group, a perturbation is invisible in every object outside the perturbed alias group (so transitive chains are reached), in-place operations change their receiver's group only.",
            "level_note": "Trusted: the snapshot/alias-group model (sim/engine_b.py Heap), np.shares_memory. Permitted sharing: copy=False constructors, to_tenmat/to_tensor(copy=False), identity of in-place operations, the caller's initial guess returned by an algorithm. Recorded known findings are tolerated by name only for the operation they were found on. Arrays of the information dictionaries returned by the algorithms are judged for sharing with live objects (not kept); mode orders and ranks are partly handed over as caller-owned arrays.",
            "technique": "deterministic simulation: object-heap histories with perturbation (in-place write) injection against a snapshot + alias-group reference model",
        },
        "level": "exploration",
        "quick": {"runs": 4000, "wall": 240},
        "thorough": {"runs": 150000, "wall": 1500},
        "chunk": 20,
        "rule": (
            "one case = one history: population of two shape families (dense, sparse, Kruskal, Tucker objects) then 8-25 steps, "
            "each an operation from the catalogue or a perturbation; non-trivial = at least 3 operations checked and at least one "
            "perturbation (or 6 operations); distinct = distinct digest of (steps, observations)."
        ),
        "state_measure": "hash of (operation, multiset of kinds on the heap, number of alias groups)",
        "components": {"real": REAL_ALL, "simulated": ["np.random seeded per call", "clock / stdout / ARPACK seams as in the solver world (algorithms run inside it)", "perturbation injector"]},
        "assumptions": ["user functions passed to tenfun/elemfun return fresh arrays"],
    },
    "C19": {
        "manifest": {
            "engine": "object-heap",
            "design_ref": "DESIGN.md section 3, engines A and B (C19 facet), Appendix A",
            "level_text": "Fault kind 'malformed request' injected into the histories of engine A (indexing on a dense+sparse pair: value count != subscript count, too few subscript columns, linear write beyond the extent, region right-hand side of the wrong shape, negative entries in a sparse subscript array) and engine B (111 recipes across all classes, module functions and algorithm entry points: shape mismatches between heap operands of different shapes, wrong-length vectors, wrong-size matrices, factor lists of the wrong length / column / row count, mode arguments out of range / negative / repeated / dims together with exclude_dims, non-permutations, element-count-changing reshapes, inconsistent constructor components, bad algorithm options). Oracle: the call raises AND every live object on the heap is bit-identical to its snapshot afterwards; the history then continues, so a partial mutation that is invisible at once is caught by later steps. Each recipe re-establishes from the actual operands that the request really violates the precondition.",
            "level_note": "Only violations that C19's statement names are injected. Trusted: the recipes' malformedness predicates (sim/catalog_b_bad.py), the snapshot model. The plain sptensor constructor documents 'no validation' apart from subscripts fitting the shape, so only that is a recipe.",
            "technique": "deterministic simulation: malformed-request fault injection into seeded object histories; oracle = rejected and all live state unchanged",
        },
        "level": "exploration",
        "quick": {"runs": 4000, "wall": 240},
        "thorough": {"runs": 150000, "wall": 1500},
        "chunk": 20,
        "rule": (
            "one case = one history of engine A (30%) or engine B (70%) in which 40-60% (B) / 15-30% (A) of the steps are malformed requests "
            "drawn from the recipe catalogue and applied to whatever shapes the heap holds at that moment; non-trivial = at least 2 malformed "
            "requests judged; distinct = distinct digest of (steps, observations)."
        ),
        "state_measure": "hash of (recipe, kinds and shapes of the operands)",
        "components": {"real": REAL_ALL, "simulated": ["malformed-request injector", "np.random / clock / stdout seams as in the solver world"]},
        "assumptions": ["malformedness predicates of the recipes"],
    },
}
