"""Which engine decides which property, and the run budgets of each tier."""

from __future__ import annotations

from typing import List

REAL_ALL = [
    "pyttb (all modules, unmodified, imported from the working tree)",
    "numpy",
    "scipy (LAPACK, ARPACK, L-BFGS-B)",
]


def make_engine(prop: str, steer: List[str]):
    if prop == "C04":
        from .engine_a import EngineA

        return EngineA("C04", steer)
    raise KeyError(prop)


CHECKS = {
    "C04": {
        "level": "exploration",
        "quick": {"runs": 16000, "wall": 150},
        "thorough": {"runs": 600000, "wall": 1500},
        "chunk": 50,
        "rule": (
            "one case = one seeded history (4-30 steps) of reads and writes in every documented key form, "
            "applied in lock-step to a dense tensor, a sparse tensor and a dict-of-cells reference model, "
            "with full-state comparison after every step; run_seed = sha256(root|C04|r). Non-trivial = at "
            "least 3 executed steps of which at least 2 writes changed the abstract state; distinct = "
            "distinct digest of (initial state, concrete step list, observations)."
        ),
        "state_measure": "hash of (shape, set of non-zero positions, sparse storage sorted/unsorted, last operation)",
        "components": {
            "real": REAL_ALL,
            "simulated": ["none needed: the history itself is the schedule; warnings are captured"],
        },
        "assumptions": [
            "narrowings listed in DESIGN.md section 3 (engine A): no duplicate positions within one batch, no length-1 index lists, float values only, no slice steps",
            "sampling, not enumeration",
        ],
    },
}
