"""Second half of the operation catalogue of engine B: sparse, Kruskal, Tucker, sum,
matricized classes, module-level functions and algorithm entry points."""

from __future__ import annotations

import copy as _copy
from typing import Any, Dict

import numpy as np

from .catalog_b import rand_array, rnd
from .kernel import dec, enc


def register(cat, simple, binary, with_scalar, _perm, _dims_subset, gen_ttm, run_ttv, gen_mttkrp, run_mttkrp, gen_nvecs, run_getitem, run_setitem):
    ttb = cat.ttb
    op = cat.op

    # ------------------------------------------------------------------- sptensor
    simple("S.copy", "S", lambda s: s.copy())
    simple("S.deepcopy", "S", lambda s: _copy.deepcopy(s), weight=0.5)
    simple("S.full", "S", lambda s: s.full())
    simple("S.to_tensor", "S", lambda s: s.to_tensor(), weight=0.5)
    simple("S.double", "S", lambda s: s.double(), weight=0.5)
    simple("S.find", "S", lambda s: list(s.find()), weight=1.5)
    simple("S.squeeze", "S", lambda s: s.squeeze(), weight=0.5)
    simple("S.ones", "S", lambda s: s.ones(), weight=0.7)
    simple("S.neg", "S", lambda s: -s, weight=0.5)
    simple("S.pos", "S", lambda s: +s)
    simple("S.norm", "S", lambda s: s.norm(), weight=0.2)
    simple("S.allsubs", "S", lambda s: s.allsubs(), weight=0.3)
    simple("S.logical_not", "S", lambda s: s.logical_not(), weight=0.3)
    simple("S.elemfun", "S", lambda s: s.elemfun(lambda v: v * 2.0 + 1.0), weight=0.7)
    simple("S.collapse_all", "S", lambda s: s.collapse(), weight=0.2)
    simple("S.squash", "S", lambda s: s.squash(), weight=0.4)
    simple("S.spmatrix", "S", lambda s: s.spmatrix() if s.ndims == 2 else s.copy(), weight=0.4)

    op("S.permute", "S", lambda c, r: {"operands": [r], "perm": _perm(c.g, c.obj(r).ndims, identity=c.g.random() < 0.3)}, lambda eng, ops, st: ops[0].permute(np.array(st["perm"])), weight=1.5)

    def gen_S_reshape(c, r):
        shape = tuple(c.obj(r).shape)
        size = int(np.prod(shape))
        opts = [shape, (size,), (1, size), (size, 1)]
        return {"operands": [r], "shape": list(c.g.choice(opts))}

    op("S.reshape", "S", gen_S_reshape, lambda eng, ops, st: ops[0].reshape(tuple(st["shape"])), weight=1.0)

    def gen_S_to_sptenmat(c, r):
        n = c.obj(r).ndims
        rd = _dims_subset(c.g, n, 1, max(1, n - 1))
        cd = [d for d in range(n) if d not in rd]
        return {"operands": [r], "rdims": rd, "cdims": cd, "form": c.g.choice(["rdims", "both"])}

    def run_S_to_sptenmat(eng, ops, st):
        if st["form"] == "rdims":
            return ops[0].to_sptenmat(rdims=np.array(st["rdims"]))
        return ops[0].to_sptenmat(rdims=np.array(st["rdims"]), cdims=np.array(st["cdims"]))

    op("S.to_sptenmat", "S", gen_S_to_sptenmat, run_S_to_sptenmat, weight=1.5)
    op("S.collapse", "S", lambda c, r: {"operands": [r], "dims": _dims_subset(c.g, c.obj(r).ndims, 1, max(1, c.obj(r).ndims - 1))}, lambda eng, ops, st: ops[0].collapse(np.array(st["dims"])), weight=0.5)

    def gen_contract(c, r):
        sh = c.obj(r).shape
        pairs = [(i, j) for i in range(len(sh)) for j in range(len(sh)) if i < j and sh[i] == sh[j]]
        if not pairs:
            return None
        i, j = c.g.choice(pairs)
        return {"operands": [r], "i": i, "j": j}

    op("S.contract", "S", gen_contract, lambda eng, ops, st: ops[0].contract(st["i"], st["j"]), weight=0.4)

    def gen_S_scale(c, r):
        sh = c.obj(r).shape
        d = c.g.randrange(len(sh))
        return {"operands": [r, c.fresh(rand_array(c.g, (sh[d],)))], "dim": d}

    op("S.scale", "S", gen_S_scale, lambda eng, ops, st: ops[0].scale(ops[1], np.array([st["dim"]])), weight=0.6)

    def gen_S_extract(c, r):
        sh = c.obj(r).shape
        rows = [[c.g.randrange(s) for s in sh] for _ in range(c.g.randint(1, 3))]
        return {"operands": [r, c.fresh(np.array(rows, dtype=int))]}

    op("S.extract", "S", gen_S_extract, lambda eng, ops, st: ops[0].extract(ops[1]), weight=0.6)

    def gen_S_ttv(c, r):
        sh = c.obj(r).shape
        n = len(sh)
        if c.g.random() < 0.5:
            d = c.g.randrange(n)
            return {"operands": [r, c.fresh(rand_array(c.g, (sh[d],)))], "form": "single", "dims": [d]}
        return {"operands": [r] + [c.fresh(rand_array(c.g, (s,))) for s in sh], "form": "all", "dims": None}

    op("S.ttv", "S", gen_S_ttv, run_ttv, weight=1.0)

    # ---- the mode list itself as a caller-owned array (a loose heap object), in arbitrary (often non-ascending) order
    def _dims_any_order(c, n, lo=1, hi=None):
        d = _dims_subset(c.g, n, lo, hi)
        c.g.shuffle(d)
        if len(d) > 1 and c.g.random() < 0.5:
            d = sorted(d, reverse=True)
        return d

    def gen_ttv_dims_operand(c, r):
        sh = c.obj(r).shape
        n = len(sh)
        if n < 2:
            return None
        dims = _dims_any_order(c, n, 2, n)
        if c.g.random() < 0.5:
            # one vector per listed mode, in the order of the list
            vec_ids = [c.fresh(rand_array(c.g, (sh[d],))) for d in dims]
        else:
            vec_ids = [c.fresh(rand_array(c.g, (s,))) for s in sh]
        return {"operands": [r] + vec_ids + [c.fresh(np.array(dims, dtype=np.int64))], "exclude": False}

    def run_ttv_dims_operand(eng, ops, st):
        return ops[0].ttv(list(ops[1:-1]), ops[-1])

    def gen_ttv_exclude_operand(c, r):
        sh = c.obj(r).shape
        n = len(sh)
        if n < 3:
            return None
        ex = _dims_any_order(c, n, 2, n - 1)
        return {"operands": [r] + [c.fresh(rand_array(c.g, (s,))) for s in sh] + [c.fresh(np.array(ex, dtype=np.int64))]}

    def gen_ttm_dims_operand(c, r):
        sh = c.obj(r).shape
        n = len(sh)
        if n < 2:
            return None
        dims = _dims_any_order(c, n, 2, n)
        tr = c.g.random() < 0.4
        mats = []
        for d in dims:
            rows = c.g.randint(1, 3)
            mats.append(c.fresh(np.asfortranarray(rand_array(c.g, (sh[d], rows) if tr else (rows, sh[d])))))
        return {"operands": [r] + mats + [c.fresh(np.array(dims, dtype=np.int64))], "transpose": tr}

    def gen_collapse_dims_operand(c, r):
        n = c.obj(r).ndims
        if n < 2:
            return None
        dims = _dims_any_order(c, n, 2, n)
        return {"operands": [r, c.fresh(np.array(dims, dtype=np.int64))]}

    for kind in ("T", "S", "K", "TT", "SUM"):
        op(kind + ".ttv_dims_operand", kind, gen_ttv_dims_operand, run_ttv_dims_operand, weight=0.5)
        op(kind + ".ttv_exclude_operand", kind, gen_ttv_exclude_operand, lambda eng, ops, st: ops[0].ttv(list(ops[1:-1]), exclude_dims=ops[-1]), weight=0.3)
    for kind in ("T", "S", "TT"):
        op(kind + ".ttm_dims_operand", kind, gen_ttm_dims_operand, lambda eng, ops, st: ops[0].ttm(list(ops[1:-1]), ops[-1], transpose=st["transpose"]), weight=0.4)
    for kind in ("T", "S"):
        op(kind + ".collapse_dims_operand", kind, gen_collapse_dims_operand, lambda eng, ops, st: ops[0].collapse(ops[1]), weight=0.3)
    # the list form of ttm with nothing selected (every mode excluded / an empty list of modes): whatever comes back
    # (today: an exception) must not be the receiver itself
    def gen_ttm_no_modes(c, r):
        sh = c.obj(r).shape
        kind = c.g.choice(["empty_dims", "all_excluded"])
        if kind == "empty_dims":
            return {"operands": [r], "kind": kind}
        ids = [c.fresh(np.asfortranarray(rand_array(c.g, (c.g.randint(1, 3), s_)))) for s_ in sh]
        return {"operands": [r] + ids, "kind": kind}

    def run_ttm_no_modes(eng, ops, st):
        if st["kind"] == "empty_dims":
            return ops[0].ttm([], dims=np.array([], dtype=int))
        return ops[0].ttm(list(ops[1:]), exclude_dims=np.arange(ops[0].ndims))

    op("T.ttm_no_modes", "T", gen_ttm_no_modes, run_ttm_no_modes, weight=0.3)
    op("S.ttm_no_modes", "S", gen_ttm_no_modes, run_ttm_no_modes, weight=0.3)

    op("S.ttm", "S", gen_ttm, lambda eng, ops, st: ops[0].ttm(ops[1], st["dim"], transpose=st["transpose"]), weight=0.8)
    op("S.mttkrp", "S", gen_mttkrp, run_mttkrp, weight=0.8)
    op("S.nvecs", "S", lambda c, r: (lambda sh, n: {"operands": [r], "n": n, "r": 1})(c.obj(r).shape, c.g.randrange(c.obj(r).ndims)), lambda eng, ops, st: ops[0].nvecs(st["n"], st["r"]), weight=0.2)
    binary("S.add", "S", ("S", "T"), lambda a, b: a + b)
    binary("S.sub", "S", ("S", "T"), lambda a, b: a - b, weight=0.5)
    binary("S.mul", "S", ("S", "T", "K"), lambda a, b: a * b, weight=0.7)
    binary("S.eq", "S", ("S", "T"), lambda a, b: a == b, weight=0.3)
    binary("S.ne", "S", ("S", "T"), lambda a, b: a != b, weight=0.2)
    binary("S.le", "S", ("S", "T"), lambda a, b: a <= b, weight=0.2)
    binary("S.gt", "S", ("S", "T"), lambda a, b: a > b, weight=0.2)
    binary("S.logical_and", "S", ("S", "T"), lambda a, b: a.logical_and(b), weight=0.3)
    binary("S.logical_or", "S", ("S", "T"), lambda a, b: a.logical_or(b), weight=0.3)
    binary("S.logical_xor", "S", ("S", "T"), lambda a, b: a.logical_xor(b), weight=0.2)
    binary("S.isequal", "S", ("S", "T"), lambda a, b: a.isequal(b), weight=0.3)
    binary("S.innerprod", "S", ("S", "T", "K", "TT"), lambda a, b: a.innerprod(b), weight=0.6)
    binary("S.mask", "S", "S", lambda a, b: a.mask(b), weight=0.4)
    binary("S.truediv", "S", ("T",), lambda a, b: a / (b * b + 1.0), weight=0.2)
    with_scalar("S.mul_scalar", "S", lambda a, s: a * s)
    with_scalar("S.rmul_scalar", "S", lambda a, s: s * a)
    with_scalar("S.div_scalar", "S", lambda a, s: a / s, weight=0.3)
    with_scalar("S.lt_scalar", "S", lambda a, s: a < s, weight=0.2)

    def gen_S_getitem(c, r):
        s = c.obj(r)
        sh = s.shape
        size = int(np.prod(sh))
        form = c.g.choice(["linear_neg", "subs", "region"])
        if form == "linear_neg":
            k = min(size, 3)
            idx = c.g.sample(range(size), k)
            idx[0] -= size
            return {"operands": [r, c.fresh(np.array(idx, dtype=int))], "form": "linear"}
        if form == "subs":
            rows = [[c.g.randrange(d) for d in sh] for _ in range(2)]
            return {"operands": [r, c.fresh(np.array(rows, dtype=int))], "form": "subs"}
        if getattr(s, "nnz", 0) and c.g.random() < 0.4:
            # a region drawn around the stored entries (their bounding box, or the slice that holds all of them)
            lo = np.asarray(s.subs).min(axis=0)
            hi = np.asarray(s.subs).max(axis=0)
            key = []
            for d in range(len(sh)):
                u = c.g.random()
                if lo[d] == hi[d] and u < 0.4:
                    key.append(int(lo[d]))
                elif u < 0.8:
                    key.append(enc(slice(int(lo[d]) if c.g.random() < 0.8 else None, int(hi[d]) + 1 if c.g.random() < 0.8 else None, None)))
                else:
                    key.append(enc(slice(None, None, None)))
            return {"operands": [r], "form": "region", "key": key}
        key = [enc(slice(None, None, None)) if c.g.random() < 0.6 else c.g.randrange(d) for d in sh]
        return {"operands": [r], "form": "region", "key": key}

    op("S.getitem", "S", gen_S_getitem, run_getitem, weight=1.5)

    def gen_S_setitem(c, r):
        sh = c.obj(r).shape
        rows = [[c.g.randrange(d) for d in sh] for _ in range(2)]
        if rows[0] == rows[1]:
            return None
        return {"operands": [r, c.fresh(np.array(rows, dtype=int)), c.fresh(np.array([[rnd(c.g)], [rnd(c.g)]]))]}

    op("S.setitem", "S", gen_S_setitem, run_setitem, inplace=True, weight=0.7)

    def gen_S_setitem_region(c, r):
        # S[region] = another sparse tensor of the region's shape (the right-hand side is an operand too)
        sh = tuple(c.obj(r).shape)
        n = len(sh)
        d = c.g.randrange(n)
        i = c.g.randrange(sh[d])
        rest = tuple(s for k, s in enumerate(sh) if k != d)
        if not rest:
            return None
        rhs = c.pick("S", lambda o: tuple(o.shape) == rest, exclude=(r,))
        if rhs is None:
            return None
        return {"operands": [r, rhs], "dim": d, "index": i}

    def gen_S_setitem_block(c, r):
        # S[a:b, c:d, ...] = another sparse tensor that fits somewhere inside (offset slices, or an index list)
        sh = tuple(c.obj(r).shape)
        n = len(sh)
        rhs = c.pick("S", lambda o: o.ndims == n and all(x <= y for x, y in zip(o.shape, sh)) and tuple(o.shape) != sh, exclude=(r,))
        if rhs is None or c.g.random() < 0.5:
            # a fresh right-hand side of a smaller shape
            rs = tuple(c.g.randint(1, x) for x in sh)
            if rs == sh:
                return None
            rhs = c._next
            c._next += 1
            st = c.cat.step_new_sptensor(c.g, list(rs))
            st["out"] = [rhs]
            c.pre.append(st)
            c.pending_kinds[rhs] = "S"
        else:
            rs = tuple(c.obj(rhs).shape)
        key = []
        for d in range(n):
            a = c.g.randint(0, sh[d] - rs[d])
            if c.g.random() < 0.25 and rs[d] >= 1:
                key.append(c.g.sample(range(sh[d]), rs[d]))
            else:
                key.append(enc(slice(a, a + rs[d], None)))
        return {"operands": [r, rhs], "key": key}

    def run_S_setitem_block(eng, ops, st):
        key = tuple(dec(k) if isinstance(k, dict) else k for k in st["key"])
        ops[0][key] = ops[1]
        return ops[0]

    op("S.setitem_block", "S", gen_S_setitem_block, run_S_setitem_block, inplace=True, weight=0.6)

    def run_S_setitem_region(eng, ops, st):
        key = [slice(None, None, None)] * ops[0].ndims
        key[st["dim"]] = st["index"]
        ops[0][tuple(key)] = ops[1]
        return ops[0]

    op("S.setitem_region_sparse_rhs", "S", gen_S_setitem_region, run_S_setitem_region, inplace=True, weight=2.5)

    def gen_T_setitem_region(c, r):
        sh = tuple(c.obj(r).shape)
        n = len(sh)
        d = c.g.randrange(n)
        i = c.g.randrange(sh[d])
        rest = tuple(s for k, s in enumerate(sh) if k != d)
        if not rest:
            return None
        rhs = c.pick("T", lambda o: tuple(o.shape) == rest, exclude=(r,))
        if rhs is None:
            return None
        return {"operands": [r, rhs], "dim": d, "index": i}

    op("T.setitem_region_tensor_rhs", "T", gen_T_setitem_region, run_S_setitem_region, inplace=True, weight=1.5)

    # -------------------------------------------------------------------- ktensor
    simple("K.copy", "K", lambda k: k.copy())
    simple("K.deepcopy", "K", lambda k: _copy.deepcopy(k), weight=0.5)
    simple("K.full", "K", lambda k: k.full())
    simple("K.to_tensor", "K", lambda k: k.to_tensor(), weight=0.4)
    simple("K.double", "K", lambda k: k.double(), weight=0.5)
    simple("K.neg", "K", lambda k: -k, weight=0.7)
    simple("K.pos", "K", lambda k: +k)
    simple("K.norm", "K", lambda k: k.norm(), weight=0.2)
    simple("K.issymmetric", "K", lambda k: k.issymmetric(), weight=0.2)
    simple("K.tovec", "K", lambda k: k.tovec(), weight=0.7)
    simple("K.tovec_noweights", "K", lambda k: k.tovec(False), weight=0.4)
    simple("K.tolist", "K", lambda k: k.tolist(), weight=1.0)
    op("K.tolist_mode", "K", lambda c, r: {"operands": [r], "mode": c.g.randrange(c.obj(r).ndims)}, lambda eng, ops, st: ops[0].tolist(st["mode"]), weight=1.0)
    op("K.extract", "K", lambda c, r: {"operands": [r], "idx": c.g.choice([None, 0, [0]])}, lambda eng, ops, st: ops[0].extract(st["idx"]) if st["idx"] is not None else ops[0].extract(), weight=0.8)
    op("K.permute", "K", lambda c, r: {"operands": [r], "perm": _perm(c.g, c.obj(r).ndims, identity=c.g.random() < 0.4)}, lambda eng, ops, st: ops[0].permute(np.array(st["perm"])), weight=1.5)
    op("K.to_tenmat", "K", lambda c, r: {"operands": [r], "rdims": [c.g.randrange(c.obj(r).ndims)]}, lambda eng, ops, st: ops[0].to_tenmat(rdims=np.array(st["rdims"])), weight=0.5)
    simple("K.symmetrize", "K", lambda k: k.symmetrize() if len(set(k.shape)) == 1 else k.copy(), weight=0.3)
    binary("K.add", "K", "K", lambda a, b: a + b, weight=1.0)
    binary("K.sub", "K", "K", lambda a, b: a - b, weight=0.5)
    binary("K.isequal", "K", "K", lambda a, b: a.isequal(b), weight=0.3)
    binary("K.innerprod", "K", ("K", "T", "S", "TT"), lambda a, b: a.innerprod(b), weight=0.6)
    binary("K.mask", "K", ("T", "S"), lambda a, b: a.mask(b), weight=0.5)
    with_scalar("K.mul_scalar", "K", lambda a, s: a * s)
    with_scalar("K.rmul_scalar", "K", lambda a, s: s * a)

    def gen_K_score(c, r):
        k = c.obj(r)
        o = c.pick("K", lambda x: tuple(x.shape) == tuple(k.shape) and x.ncomponents >= k.ncomponents, exclude=())
        if o is None:
            return None
        return {"operands": [r, o], "greedy": c.g.random() < 0.7}

    op("K.score", "K", gen_K_score, lambda eng, ops, st: list(ops[0].score(ops[1], greedy=st["greedy"])), weight=0.8)

    def gen_K_ttv(c, r):
        sh = c.obj(r).shape
        n = len(sh)
        if c.g.random() < 0.6 and n > 1:
            d = c.g.randrange(n)
            return {"operands": [r, c.fresh(rand_array(c.g, (sh[d],)))], "form": "single", "dims": [d]}
        return {"operands": [r] + [c.fresh(rand_array(c.g, (s,))) for s in sh], "form": "all", "dims": None}

    op("K.ttv", "K", gen_K_ttv, run_ttv, weight=2.0)
    op("K.mttkrp", "K", gen_mttkrp, run_mttkrp, weight=0.8)
    op("K.nvecs", "K", gen_nvecs, lambda eng, ops, st: ops[0].nvecs(st["n"], st["r"]), weight=0.3)
    # documented in-place operations (receiver changes, nothing else)
    op("K.arrange", "K", lambda c, r: {"operands": [r]}, lambda eng, ops, st: ops[0].arrange() or ops[0], inplace=True, weight=0.6)
    op("K.arrange_perm", "K", lambda c, r: {"operands": [r, c.fresh(np.array(_perm(c.g, c.obj(r).ncomponents), dtype=int))]}, lambda eng, ops, st: ops[0].arrange(permutation=ops[1]) or ops[0], inplace=True, weight=0.5)
    op("K.fixsigns", "K", lambda c, r: {"operands": [r]}, lambda eng, ops, st: ops[0].fixsigns(), inplace=True, weight=0.6)

    def gen_K_fixsigns_other(c, r):
        k = c.obj(r)
        o = c.pick("K", lambda x: tuple(x.shape) == tuple(k.shape) and x.ncomponents == k.ncomponents, exclude=(r,))
        if o is None:
            return None
        return {"operands": [r, o]}

    op("K.fixsigns_other", "K", gen_K_fixsigns_other, lambda eng, ops, st: ops[0].fixsigns(ops[1]), inplace=True, weight=1.5)
    op("K.normalize", "K", lambda c, r: {"operands": [r], "wf": c.g.choice([None, 0, "all"]), "sort": c.g.random() < 0.3, "nt": c.g.choice([1, 2])}, lambda eng, ops, st: ops[0].normalize(weight_factor=st["wf"], sort=st["sort"], normtype=st["nt"]), inplace=True, weight=0.8)
    op("K.normalize_mode", "K", lambda c, r: {"operands": [r], "mode": c.g.randrange(c.obj(r).ndims)}, lambda eng, ops, st: ops[0].normalize(mode=st["mode"]), inplace=True, weight=0.4)
    op("K.redistribute", "K", lambda c, r: {"operands": [r], "mode": c.g.randrange(c.obj(r).ndims)}, lambda eng, ops, st: ops[0].redistribute(st["mode"]), inplace=True, weight=0.5)

    def gen_K_update(c, r):
        k = c.obj(r)
        form = c.g.choice(["one", "weights", "weights_and_modes", "all"])
        if form == "one":
            modes = [c.g.randrange(k.ndims)]
        elif form == "weights":
            modes = [-1]
        elif form == "weights_and_modes":
            modes = [-1] + sorted(c.g.sample(range(k.ndims), c.g.randint(1, k.ndims)))
        else:
            modes = list(range(k.ndims))
        need = sum(k.ncomponents if m == -1 else k.shape[m] * k.ncomponents for m in modes)
        return {"operands": [r, c.fresh(rand_array(c.g, (need,), 0.2, 2.0))], "modes": modes}

    op("K.update", "K", gen_K_update, lambda eng, ops, st: ops[0].update(st["modes"] if len(st["modes"]) > 1 else st["modes"][0], ops[1]), inplace=True, weight=1.2)

    def gen_K_from_vector(c, r):
        k = c.obj(r)
        return {"operands": [r, c.fresh(np.array(k.tovec(), copy=True))]}

    op("K.from_vector", "K", gen_K_from_vector, lambda eng, ops, st: ttb.ktensor.from_vector(ops[1], tuple(ops[0].shape), True), weight=0.5)

    # -------------------------------------------------------------------- ttensor
    simple("TT.copy", "TT", lambda t: t.copy())
    simple("TT.deepcopy", "TT", lambda t: _copy.deepcopy(t), weight=0.5)
    simple("TT.full", "TT", lambda t: t.full())
    simple("TT.double", "TT", lambda t: t.double(), weight=0.5)
    simple("TT.neg", "TT", lambda t: -t, weight=0.7)
    simple("TT.pos", "TT", lambda t: +t)
    simple("TT.norm", "TT", lambda t: t.norm(), weight=0.2)
    simple("TT.reconstruct", "TT", lambda t: t.reconstruct(), weight=0.5)
    with_scalar("TT.mul_scalar", "TT", lambda a, s: a * s)
    with_scalar("TT.rmul_scalar", "TT", lambda a, s: s * a)
    op("TT.permute", "TT", lambda c, r: {"operands": [r], "perm": _perm(c.g, c.obj(r).ndims, identity=c.g.random() < 0.4)}, lambda eng, ops, st: ops[0].permute(np.array(st["perm"])), weight=1.5)
    # ---- sparse matricised tensor from a caller-owned scipy COO matrix (stored triplets in arbitrary order)
    def gen_STM_from_coo(c, r):
        tshape = list(c.g.choice(c.heap_families()))
        n = len(tshape)
        if n < 2:
            return None
        rd = _dims_subset(c.g, n, 1, n - 1)
        cd = [d for d in range(n) if d not in rd]
        rows = int(np.prod([tshape[d] for d in rd]))
        cols = int(np.prod([tshape[d] for d in cd]))
        cells = [(i, j) for i in range(rows) for j in range(cols)]
        chosen = c.g.sample(cells, c.g.randint(1, min(6, len(cells))))
        c.g.shuffle(chosen)
        trip = {"data": [rnd(c.g) or 1.5 for _ in chosen], "row": [p[0] for p in chosen], "col": [p[1] for p in chosen], "shape": [rows, cols]}
        return {"operands": [c.fresh_coo(triplets=trip)], "rdims": rd, "cdims": cd if c.g.random() < 0.5 else None, "tshape": tshape}

    def run_STM_from_coo(eng, ops, st):
        kw = {"rdims": np.array(st["rdims"], dtype=int), "tshape": tuple(st["tshape"])}
        if st["cdims"] is not None:
            kw["cdims"] = np.array(st["cdims"], dtype=int)
        return ttb.sptenmat.from_array(ops[0], **kw)

    op("STM.from_array_coo", None, gen_STM_from_coo, run_STM_from_coo, weight=0.5)

    # ---- Tucker tensors whose factor matrices are scipy COO matrices (documented as accepted by the constructor)
    def gen_TT_sparse_factors(c, r):
        core = c.obj(r)
        if core.ndims < 2:
            return None
        ids = []
        for s in core.shape:
            rows = c.g.randint(2, 3)
            a = rand_array(c.g, (rows, s))
            a[np.abs(a) < 0.4] = 0.0
            if not a.any():
                a[0, 0] = 1.5
            ids.append(c.fresh_coo(a))
        return {"operands": [r] + ids, "copy": c.g.choice([True, True, None])}

    def run_TT_sparse_factors(eng, ops, st):
        if st["copy"] is None:
            return ttb.ttensor(ops[0], list(ops[1:]))
        return ttb.ttensor(ops[0], list(ops[1:]), copy=st["copy"])

    op("TT.new_from_sparse_factors", "T", gen_TT_sparse_factors, run_TT_sparse_factors, weight=0.5)

    op("TT.ttv", "TT", gen_K_ttv, run_ttv, weight=1.0)
    op("TT.ttm", "TT", gen_ttm, lambda eng, ops, st: ops[0].ttm(ops[1], st["dim"], transpose=st["transpose"]), weight=1.0)
    op("TT.mttkrp", "TT", gen_mttkrp, run_mttkrp, weight=0.6)
    op("TT.nvecs", "TT", lambda c, r: {"operands": [r], "n": c.g.randrange(c.obj(r).ndims), "r": 1}, lambda eng, ops, st: ops[0].nvecs(st["n"], st["r"]), weight=0.3)
    binary("TT.innerprod", "TT", ("TT", "T", "S", "K"), lambda a, b: a.innerprod(b), weight=0.6)
    binary("TT.isequal", "TT", "TT", lambda a, b: a.isequal(b), weight=0.3)

    def gen_TT_reconstruct(c, r):
        t = c.obj(r)
        m = c.g.randrange(t.ndims)
        return {"operands": [r, c.fresh(np.array(sorted(c.g.sample(range(t.shape[m]), c.g.randint(1, t.shape[m]))), dtype=int))], "mode": m}

    op("TT.reconstruct_samples", "TT", gen_TT_reconstruct, lambda eng, ops, st: ops[0].reconstruct(ops[1], st["mode"]), weight=0.5)

    # ------------------------------------------------------------------ sumtensor
    simple("SUM.copy", "SUM", lambda s: s.copy())
    simple("SUM.deepcopy", "SUM", lambda s: _copy.deepcopy(s), weight=0.4)
    simple("SUM.full", "SUM", lambda s: s.full())
    simple("SUM.double", "SUM", lambda s: s.double(), weight=0.5)
    simple("SUM.neg", "SUM", lambda s: -s)
    simple("SUM.pos", "SUM", lambda s: +s)
    simple("SUM.norm", "SUM", lambda s: s.norm(), weight=0.2)
    binary("SUM.add", "SUM", ("T", "S", "K", "TT"), lambda a, b: a + b, weight=1.5)
    binary("SUM.radd", "SUM", ("T", "K"), lambda a, b: b + a, weight=0.7)
    binary("SUM.add_sum", "SUM", "SUM", lambda a, b: a + b, weight=0.5)
    binary("SUM.innerprod", "SUM", ("T", "S", "K"), lambda a, b: a.innerprod(b), weight=0.5)
    op("SUM.ttv", "SUM", gen_K_ttv, run_ttv, weight=1.0)
    op("SUM.mttkrp", "SUM", gen_mttkrp, run_mttkrp, weight=0.6)

    # --------------------------------------------------------------------- tenmat
    simple("TM.copy", "TM", lambda m: m.copy())
    simple("TM.deepcopy", "TM", lambda m: _copy.deepcopy(m), weight=0.4)
    simple("TM.ctranspose", "TM", lambda m: m.ctranspose())
    simple("TM.double", "TM", lambda m: m.double())
    simple("TM.neg", "TM", lambda m: -m, weight=0.5)
    simple("TM.pos", "TM", lambda m: +m)
    simple("TM.norm", "TM", lambda m: m.norm(), weight=0.2)
    op("TM.to_tensor", "TM", lambda c, r: {"operands": [r], "copy": c.g.random() < 0.5}, lambda eng, ops, st: ops[0].to_tensor(copy=st["copy"]), allowed=lambda st: () if st["copy"] else (0,), weight=2.0)
    with_scalar("TM.add_scalar", "TM", lambda a, s: a + s)
    with_scalar("TM.mul_scalar", "TM", lambda a, s: a * s)
    with_scalar("TM.rsub_scalar", "TM", lambda a, s: s - a, weight=0.3)

    def gen_TM_binary(c, r):
        m = c.obj(r)
        o = c.pick("TM", lambda x: tuple(x.shape) == tuple(m.shape) and tuple(x.tshape) == tuple(m.tshape))
        if o is None:
            return None
        return {"operands": [r, o], "which": c.g.choice(["add", "sub", "isequal"])}

    op("TM.binary", "TM", gen_TM_binary, lambda eng, ops, st: {"add": lambda a, b: a + b, "sub": lambda a, b: a - b, "isequal": lambda a, b: a.isequal(b)}[st["which"]](ops[0], ops[1]), weight=0.8)
    op("TM.mul_ctranspose", "TM", lambda c, r: {"operands": [r]}, lambda eng, ops, st: ops[0] * ops[0].ctranspose(), weight=0.5)
    op("TM.getitem", "TM", lambda c, r: {"operands": [r], "form": c.g.choice(["all", "row", "elem"])}, lambda eng, ops, st: ops[0][:, :] if st["form"] == "all" else (ops[0][0, :] if st["form"] == "row" else ops[0][0, 0]), weight=1.5, known_alias="tenmat_getitem_view")

    def run_TM_setitem(eng, ops, st):
        ops[0][0, 0] = st["v"]
        return ops[0]

    op("TM.setitem", "TM", lambda c, r: {"operands": [r], "v": rnd(c.g)}, run_TM_setitem, inplace=True, weight=0.6)

    # ------------------------------------------------------------------- sptenmat
    simple("STM.copy", "STM", lambda m: m.copy())
    simple("STM.deepcopy", "STM", lambda m: _copy.deepcopy(m), weight=0.4)
    simple("STM.to_sptensor", "STM", lambda m: m.to_sptensor(), weight=1.5)
    simple("STM.full", "STM", lambda m: m.full())
    simple("STM.double", "STM", lambda m: m.double(), weight=1.5)
    simple("STM.neg", "STM", lambda m: -m, weight=0.5)
    simple("STM.pos", "STM", lambda m: +m)
    simple("STM.norm", "STM", lambda m: m.norm(), weight=0.2)
    binary("STM.isequal", "STM", "STM", lambda a, b: a.isequal(b), weight=0.2)

    def gen_sptenmat_ctor(c, r):
        shape = c.g.choice(c.heap_families())
        n = len(shape)
        rd = _dims_subset(c.g, n, 1, max(1, n - 1))
        cd = [d for d in range(n) if d not in rd]
        rows = int(np.prod([shape[d] for d in rd]))
        cols = int(np.prod([shape[d] for d in cd])) if cd else 1
        k = c.g.randint(1, min(3, rows * cols))
        lin = c.g.sample(range(rows * cols), k)
        subs = np.array([[v % rows, v // rows] for v in lin], dtype=int)
        vals = np.array([[rnd(c.g)] for _ in lin], dtype=float)
        return {
            "operands": [c.fresh(subs), c.fresh(vals), c.fresh(np.array(rd, dtype=int)), c.fresh(np.array(cd, dtype=int))],
            "tshape": list(shape),
            "copy": c.g.random() < 0.5,
        }

    op(
        "sptenmat_ctor",
        None,
        gen_sptenmat_ctor,
        lambda eng, ops, st: ttb.sptenmat(ops[0], ops[1], ops[2], ops[3], tuple(st["tshape"]), copy=st["copy"]),
        allowed=lambda st: () if st["copy"] else (0, 1, 2, 3),
    )

    # --------------------------------------------------------------- module level
    def gen_khatrirao(c, r):
        rk = c.g.randint(1, 3)
        ids = [c.fresh(np.asfortranarray(rand_array(c.g, (c.g.randint(1, 3), rk))) if c.g.random() < 0.7 else np.ascontiguousarray(rand_array(c.g, (c.g.randint(1, 3), rk)))) for _ in range(c.g.randint(1, 3))]
        return {"operands": ids, "reverse": c.g.random() < 0.3, "as_list": c.g.random() < 0.5}

    def run_khatrirao(eng, ops, st):
        if st["as_list"]:
            return ttb.khatrirao(*list(ops), reverse=st["reverse"])
        return ttb.khatrirao(*ops, reverse=st["reverse"])

    op("khatrirao", None, gen_khatrirao, run_khatrirao, weight=0.8)

    # ----------------------------------------------------------------- algorithms
    def gen_cp_als(c, r):
        x = c.obj(r)
        sh = tuple(x.shape)
        if len(sh) < 2 or x.norm() == 0:
            return None
        k = c.pick("K", lambda o: tuple(o.shape) == sh)
        st: Dict[str, Any] = {"operands": [r], "rank": 1, "init": c.g.choice(["random", "nvecs"]) if c.heap.kinds[r] == "T" else "random", "maxiters": c.g.randint(1, 2)}
        if k is not None and c.g.random() < 0.7:
            st["operands"] = [r, k]
            st["rank"] = c.obj(k).ncomponents
            st["init"] = "ktensor"
            st["guess_operands"] = [1]
        n = len(sh)
        st["dimorder"] = _perm(c.g, n) if c.g.random() < 0.3 else None
        st["optdims"] = sorted(c.g.sample(range(n), c.g.randint(1, n - 1))) if c.g.random() < 0.35 else None
        st["fixsigns"] = c.g.random() < 0.8
        # mode lists handed over as caller-owned integer arrays (operands of the call like any other)
        for name in ("dimorder", "optdims"):
            if st[name] is not None and c.g.random() < 0.5:
                st["operands"] = list(st["operands"]) + [c.fresh(np.array(st[name], dtype=int))]
                st[name + "_operand"] = len(st["operands"]) - 1
        return st

    def run_cp_als(eng, ops, st):
        init = ops[1] if st["init"] == "ktensor" else st["init"]
        kw = {}
        if st.get("dimorder") is not None:
            kw["dimorder"] = ops[st["dimorder_operand"]] if st.get("dimorder_operand") is not None else st["dimorder"]
        if st.get("optdims") is not None:
            kw["optdims"] = ops[st["optdims_operand"]] if st.get("optdims_operand") is not None else st["optdims"]
        return ttb.cp_als(ops[0], st["rank"], init=init, maxiters=st["maxiters"], printitn=0, fixsigns=st.get("fixsigns", True), **kw)

    op("cp_als", ("T", "S"), gen_cp_als, run_cp_als, weight=1.5)

    def gen_cp_apr(c, r):
        x = c.obj(r)
        sh = tuple(x.shape)
        if len(sh) < 2:
            return None
        data = x.data if c.heap.kinds[r] == "T" else x.vals
        if data.size == 0 or np.min(data) < 0 or not np.any(data):
            return None
        k = c.pick("K", lambda o: tuple(o.shape) == sh and all(np.min(f) >= 0 for f in o.factor_matrices) and np.min(o.weights) >= 0)
        st: Dict[str, Any] = {"operands": [r], "rank": 1, "init": "random", "alg": c.g.choice(["mu", "pdnr", "pqnr"]), "maxiters": c.g.randint(1, 2)}
        if k is not None and c.g.random() < 0.8:
            st["operands"] = [r, k]
            st["rank"] = c.obj(k).ncomponents
            st["init"] = "ktensor"
            st["guess_operands"] = [1]
        return st

    def run_cp_apr(eng, ops, st):
        init = ops[1] if st["init"] == "ktensor" else "random"
        return ttb.cp_apr(ops[0], st["rank"], algorithm=st["alg"], init=init, maxiters=st["maxiters"], maxinneriters=2, printitn=0)

    op("cp_apr", ("T", "S"), gen_cp_apr, run_cp_apr, weight=1.5)

    def gen_hosvd(c, r):
        x = c.obj(r)
        if x.norm() == 0:
            return None
        st: Dict[str, Any] = {"operands": [r], "tol": 0.3, "ranks": None}
        if c.g.random() < 0.5:
            # 0 = "choose this rank from the tolerance"
            st["operands"] = [r, c.fresh(np.array([c.g.choice([0, c.g.randint(1, s)]) for s in x.shape], dtype=int))]
            st["ranks"] = "operand"
        if x.ndims >= 2 and c.g.random() < 0.3:
            st["operands"] = list(st["operands"]) + [c.fresh(np.array(_perm(c.g, x.ndims), dtype=int))]
            st["dimorder_operand"] = len(st["operands"]) - 1
        return st

    def run_hosvd(eng, ops, st):
        kw = {}
        if st.get("dimorder_operand") is not None:
            kw["dimorder"] = ops[st["dimorder_operand"]]
        if st["ranks"] is None:
            return ttb.hosvd(ops[0], st["tol"], verbosity=0, **kw)
        return ttb.hosvd(ops[0], st["tol"], verbosity=0, ranks=ops[1], **kw)

    op("hosvd", "T", gen_hosvd, run_hosvd, weight=1.0)

    def gen_tucker_als(c, r):
        x = c.obj(r)
        if x.norm() == 0 or x.ndims < 2:
            return None
        ranks = [c.g.randint(1, s) for s in x.shape]
        dimorder = _perm(c.g, x.ndims) if c.g.random() < 0.3 else None
        if c.g.random() < 0.5:
            st: Dict[str, Any] = {"operands": [r], "ranks": ranks, "init": "random", "dimorder": dimorder, "n_init": 0}
        else:
            ids = [c.fresh(np.asfortranarray(rand_array(c.g, (s, rk)))) for s, rk in zip(x.shape, ranks)]
            st = {"operands": [r] + ids, "ranks": ranks, "init": "list", "guess_operands": list(range(1, 1 + len(ids))), "dimorder": dimorder, "n_init": len(ids)}
        if dimorder is not None and c.g.random() < 0.5:
            st["operands"] = list(st["operands"]) + [c.fresh(np.array(dimorder, dtype=int))]
            st["dimorder_operand"] = len(st["operands"]) - 1
        if c.g.random() < 0.3:
            st["operands"] = list(st["operands"]) + [c.fresh(np.array(ranks, dtype=int))]
            st["ranks_operand"] = len(st["operands"]) - 1
        return st

    def run_tucker_als(eng, ops, st):
        n_init = st.get("n_init", len(ops) - 1)
        init = list(ops[1 : 1 + n_init]) if st["init"] == "list" else "random"
        dimorder = ops[st["dimorder_operand"]] if st.get("dimorder_operand") is not None else st.get("dimorder")
        ranks = ops[st["ranks_operand"]] if st.get("ranks_operand") is not None else st["ranks"]
        T, Uinit, info = ttb.tucker_als(ops[0], ranks, maxiters=2, init=init, printitn=0, dimorder=dimorder)
        return (T, [u for u in Uinit if u is not None], info)

    op("tucker_als", "T", gen_tucker_als, run_tucker_als, weight=1.0)

    def gen_gcp_opt(c, r):
        x = c.obj(r)
        sh = tuple(x.shape)
        if len(sh) < 2:
            return None
        k = c.pick("K", lambda o: tuple(o.shape) == sh)
        st: Dict[str, Any] = {"operands": [r], "rank": 1, "init": "random", "solver": "LBFGSB" if c.heap.kinds[r] == "T" else "SGD"}
        if k is not None and c.g.random() < 0.8:
            st["operands"] = [r, k]
            st["rank"] = c.obj(k).ncomponents
            st["init"] = "ktensor"
            st["guess_operands"] = [1]
        elif c.g.random() < 0.4:
            # the guess as a list (or tuple) of caller-owned factor matrices, in either memory layout
            rk = c.g.randint(1, 2)
            mats = [rand_array(c.g, (s, rk), 0.1, 1.0) for s in sh]
            lay = c.g.choice(["F", "C", "mixed"])
            ids = [c.fresh(np.asfortranarray(m) if (lay == "F" or (lay == "mixed" and j % 2 == 0)) else np.ascontiguousarray(m)) for j, m in enumerate(mats)]
            st["operands"] = [r] + ids
            st["rank"] = rk
            st["init"] = c.g.choice(["list", "tuple"])
            st["n_init"] = len(ids)
        if c.heap.kinds[r] == "T" and c.g.random() < 0.3:
            st["solver"] = "SGD"
        if c.heap.kinds[r] == "T" and st["solver"] == "LBFGSB" and c.g.random() < 0.4:
            # missing-data mask (dense data, L-BFGS-B only): zeros mark the entries to ignore
            mk = (rand_array(c.g, sh) > -0.3).astype(float)
            mk.flat[c.g.randrange(mk.size)] = 0.0
            st["operands"] = list(st["operands"]) + [c.fresh(np.asfortranarray(mk))]
            st["mask"] = len(st["operands"]) - 1
        return st

    def run_gcp_opt(eng, ops, st):
        from pyttb.gcp.handles import Objectives
        from pyttb.gcp.optimizers import LBFGSB, SGD

        init = ops[1] if st["init"] == "ktensor" else "random"
        if st["init"] in ("list", "tuple"):
            init = list(ops[1 : 1 + st["n_init"]])
            if st["init"] == "tuple":
                init = tuple(init)
        if st["solver"] == "LBFGSB":
            opt = LBFGSB(maxiter=2, iprint=-1)
        else:
            opt = SGD(max_iters=1, epoch_iters=1, printitn=0)
        if st.get("mask") is not None:
            return ttb.gcp_opt(ops[0], st["rank"], Objectives.GAUSSIAN, opt, init=init, mask=ttb.tensor(ops[st["mask"]]), printitn=0)
        return ttb.gcp_opt(ops[0], st["rank"], Objectives.GAUSSIAN, opt, init=init, printitn=0)

    op("gcp_opt", ("T", "S"), gen_gcp_opt, run_gcp_opt, weight=1.5, known_mutates="gcp_opt_normalizes_init")
