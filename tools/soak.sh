#!/bin/bash
# usage: tools/soak.sh "<props>" "<seeds>" [tier]   -- runs checks in sequence, prints one line per check
cd "$(dirname "$(readlink -f "$0")")/.." || exit 2
TIER="${3:-thorough}"
for s in $2; do
  for p in $1; do
    out=$(VERIF_SEED=$s VERIF_NO_EVIDENCE=1 ./check $p $TIER 2>&1)
    rc=$?
    echo "seed=$s prop=$p rc=$rc $(echo "$out" | grep '^DONE' | cut -c1-200)"
    if [ $rc -ne 0 ]; then echo "$out" | grep -A3 '^VIOLATION\|HARNESS' | cut -c1-600; fi
  done
done
