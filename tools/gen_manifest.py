#!/usr/bin/env python3
"""Regenerates /verif/MANIFEST.json from sim/registry.py (single source of truth)."""
import json
import os
import sys

ROOT = os.path.dirname(os.path.dirname(os.path.abspath(__file__)))
sys.path.insert(0, ROOT)
from sim.registry import CHECKS, ENGINES, NOT_APPLICABLE  # noqa: E402

checks = []
for prop, cfg in sorted(CHECKS.items()):
    m = cfg["manifest"]
    checks.append(
        {
            "property_id": prop,
            "quick_cmd": f"./check {prop} quick",
            "thorough_cmd": f"./check {prop} thorough",
            "evidence_file": f"evidence/{prop}.json",
            "replay_cmd_template": f"./check {prop} --replay {{path}}",
            "engine": m["engine"],
            "level_claimed": {"category": cfg["level"], "text": m["level_text"], "design_ref": m["design_ref"]},
            "level_note": m["level_note"],
            "technique": m["technique"],
        }
    )
manifest = {
    "version": 1,
    "setup_cmd": "./tools/setup.sh",
    "hooks": {
        "guard": "PYTTB_VERIF",
        "enable": "none needed: every seam (time, open, eigsh/eigs, np.random, samplers, stdout/logging) is reached by rebinding module attributes from the harness; /repo carries no instrumentation commits",
        "baseline_off_cmd": "cd /repo && /venv/bin/python -m pytest -q -p no:cacheprovider",
        "source_commits": [],
        "add_only": True,
    },
    "engines": ENGINES,
    "checks": checks,
    "not_applicable": [{"property_id": k, "reason": v} for k, v in sorted(NOT_APPLICABLE.items())],
    "notes": "See DESIGN.md. known_findings.json lists repaired defects (fix: commits in /repo, replays kept as regression cases) and recorded ones (KNOWN-FINDING lines).",
}
with open(os.path.join(ROOT, "MANIFEST.json"), "w") as f:
    json.dump(manifest, f, indent=1)
print("MANIFEST.json written:", [c["property_id"] for c in checks])
