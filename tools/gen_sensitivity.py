#!/usr/bin/env python3
"""Fills section 10.1 of DESIGN.md from mutants/RESULTS.json and seeded/RESULTS.json."""
import json
import os

ROOT = os.path.dirname(os.path.dirname(os.path.abspath(__file__)))
B, E = "<!-- SENSITIVITY:BEGIN -->", "<!-- SENSITIVITY:END -->"
lines = ["### 10.1 Results", "", "| kind | property | change | pinned suite with the change | caught by | violation class |", "|---|---|---|---|---|---|"]
mp = os.path.join(ROOT, "mutants", "RESULTS.json")
if os.path.exists(mp):
    for r in json.load(open(mp)):
        lines.append(f"| mutant | {r['property']} | {r['name']} | {r.get('pinned_tests', '?')} | {'quick check' if r['status'] == 'caught' else r['status']} | {('; '.join(c.split(' run=')[0].replace('class=', '') for c in r.get('classes', [])[:2]))} |")
sp = os.path.join(ROOT, "seeded", "RESULTS.json")
if os.path.exists(sp):
    for r in json.load(open(sp)):
        lines.append(f"| seeded | {r['property']} | {r['id']} | {r.get('pinned_tests_with_change', '?')} | {r.get('caught_by_tier') or r['status']} | {('; '.join(c.split(' run=')[0].replace('class=', '') for c in r.get('classes', [])[:2]))} |")
p = os.path.join(ROOT, "DESIGN.md")
s = open(p).read()
block = B + "\n" + "\n".join(lines) + "\n" + E
if B in s:
    s = s[: s.index(B)] + block + s[s.index(E) + len(E) :]
else:
    s = s.replace("SENSITIVITY_TABLE", block)
open(p, "w").write(s)
print("DESIGN.md section 10.1 updated:", len(lines) - 4, "rows")
