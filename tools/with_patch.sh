#!/bin/bash
# usage: with_patch.sh <patch.diff> [-R] -- <command...>
# Copies /repo's working tree (pyttb package only) to a scratch dir, applies the patch there and runs
# the command with VERIF_REPO pointing at the copy; the copy is removed afterwards.
PATCH="$1"; shift
REV=""
if [ "$1" = "-R" ]; then REV="-R"; shift; fi
[ "$1" = "--" ] && shift
SCR="$(mktemp -d /tmp/verif_mut.XXXXXX)"
trap 'rm -rf "$SCR"' EXIT
mkdir -p "$SCR/repo"
cp -r /repo/pyttb "$SCR/repo/pyttb"
cp /repo/pyproject.toml /repo/conftest.py "$SCR/repo/" 2>/dev/null
find "$SCR/repo" -name __pycache__ -type d -exec rm -rf {} + 2>/dev/null
( cd "$SCR/repo" && patch -p1 $REV --no-backup-if-mismatch -s < "$PATCH" ) || { echo "PATCH-FAILED"; exit 3; }
VERIF_REPO="$SCR/repo" VERIF_NO_EVIDENCE=1 "$@"
