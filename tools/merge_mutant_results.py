#!/usr/bin/env python3
"""Merge mutants/RESULTS.json and diffs produced by background runs (vp run snapshots) into /verif/mutants."""
import glob, json, os, shutil, sys
ROOT = os.path.dirname(os.path.dirname(os.path.abspath(__file__)))
res = {}
for f in sorted(glob.glob("/root/.vp/runs/*/verif/mutants/RESULTS.json"), key=os.path.getmtime):
    for r in json.load(open(f)):
        res[(r["property"], r["name"])] = r
    for d in glob.glob(os.path.join(os.path.dirname(f), "*", "*.diff")):
        dst = os.path.join(ROOT, "mutants", os.path.basename(os.path.dirname(d)))
        os.makedirs(dst, exist_ok=True)
        shutil.copy(d, dst)
local = os.path.join(ROOT, "mutants", "RESULTS.json")
if os.path.exists(local):
    for r in json.load(open(local)):
        if r.get("status") == "caught" or (r["property"], r["name"]) not in res:
            res[(r["property"], r["name"])] = r
json.dump(sorted(res.values(), key=lambda r: (r["property"], r["name"])), open(local, "w"), indent=1)
print(len(res), "mutant results;", sum(r["status"] != "caught" for r in res.values()), "not caught")
