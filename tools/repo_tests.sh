#!/bin/bash
# Runs the pinned suite (208 doctests) and the functional tests of the repository under test.
REPO="${1:-/repo}"
cd "$REPO" || exit 2
/venv/bin/python -m pytest -q -p no:cacheprovider 2>&1 | tail -3
/venv/bin/python -m pytest tests -q -p no:cacheprovider -n 12 --deselect tests/test_package.py -o addopts="" 2>&1 | tail -3
