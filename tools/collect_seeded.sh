#!/bin/bash
# usage: tools/collect_seeded.sh C04   -- copies /tmp/wt_<P>/seeded_{1,2} into /verif/seeded/<P>-{1,2}
P="$1"; SUF="${2:-}"
for i in 1 2; do
  src="/tmp/wt_$P$SUF/seeded_$i"; dst="/verif/seeded/$P$SUF-$i"
  [ -d "$src" ] || continue
  mkdir -p "$dst"; cp "$src/patch.diff" "$src/demo.py" "$dst/"; cp "$src/notes.md" "$dst/" 2>/dev/null
  python3 - "$P" "$dst" <<'PY'
import json,sys,os
p,dst=sys.argv[1:3]
notes=open(os.path.join(dst,"notes.md")).read() if os.path.exists(os.path.join(dst,"notes.md")) else ""
json.dump({"property":p,"origin":"written by a sub-agent that saw only the property text and its own scratch worktree","needs_to_manifest":notes[:1500],"verified_with":"tools/seeded.py (scratch copy outside /repo and /verif: pinned suite with the change, demo with/without, property check against the copy)"},open(os.path.join(dst,"meta.json"),"w"),indent=1)
PY
  grep -l "/tmp/wt_" "$dst/demo.py" && echo "WARNING: demo references worktree path"
done
