#!/usr/bin/env python3
"""Evaluate the independently written breaking changes kept under /verif/seeded/<id>/.

For each directory (patch.diff, demo.py, meta.json {"property": ...}):
  1. apply the patch to a scratch copy of /repo's pyttb (outside /repo and /verif),
  2. confirm the pinned suite still passes on the copy,
  3. confirm demo.py fails with the change and passes without it,
  4. run the property's check against the copy (quick; then thorough if quick misses) and record whether it
     exits 1 with a VIOLATION line.
usage: tools/seeded.py [--only substring] [--no-tests] [--tier quick|thorough]
"""
import argparse
import json
import os
import shutil
import subprocess
import sys
import tempfile

ROOT = os.path.dirname(os.path.dirname(os.path.abspath(__file__)))
REPO = "/repo"
PY = "/venv/bin/python"


def scratch_copy():
    scr = tempfile.mkdtemp(prefix="verif_seed.", dir="/tmp")
    repo = os.path.join(scr, "repo")
    os.makedirs(repo)
    shutil.copytree(os.path.join(REPO, "pyttb"), os.path.join(repo, "pyttb"), ignore=shutil.ignore_patterns("__pycache__"))
    for f in ("pyproject.toml", "conftest.py"):
        shutil.copy(os.path.join(REPO, f), repo)
    return scr, repo


def run_check(prop, repo, tier, extra_env=None):
    env = dict(os.environ, VERIF_REPO=repo, VERIF_NO_EVIDENCE="1")
    env.update(extra_env or {})
    c = subprocess.run([os.path.join(ROOT, "check"), prop, tier], cwd=ROOT, capture_output=True, text=True, env=env)
    viol = [ln for ln in c.stdout.splitlines() if ln.startswith("VIOLATION")]
    klass = [ln.strip() for ln in c.stdout.splitlines() if ln.strip().startswith("class=")]
    return c.returncode, viol, klass


def main():
    ap = argparse.ArgumentParser()
    ap.add_argument("--only")
    ap.add_argument("--no-tests", action="store_true")
    ap.add_argument("--tier", default="auto")
    a = ap.parse_args()
    base = os.path.join(ROOT, "seeded")
    res_path = os.path.join(base, "RESULTS.json")
    prev = {}
    if os.path.exists(res_path):
        prev = {r["id"]: r for r in json.load(open(res_path))}
    for name in sorted(os.listdir(base)):
        d = os.path.join(base, name)
        if not os.path.isdir(d) or (a.only and a.only not in name):
            continue
        meta = json.load(open(os.path.join(d, "meta.json")))
        prop = meta["property"]
        scr, repo = scratch_copy()
        try:
            p = subprocess.run(["patch", "-p1", "-s", "--no-backup-if-mismatch", "-i", os.path.join(d, "patch.diff")], cwd=repo, capture_output=True, text=True)
            if p.returncode != 0:
                print(f"{name}: PATCH-FAILED {p.stdout[-300:]}")
                prev[name] = {"id": name, "property": prop, "status": "patch-failed"}
                continue
            tests = "skipped"
            if not a.no_tests:
                t = subprocess.run([PY, "-m", "pytest", "-q", "-p", "no:cacheprovider", "-x"], cwd=repo, capture_output=True, text=True, env=dict(os.environ, PYTHONDONTWRITEBYTECODE="1"))
                tests = "pass" if t.returncode == 0 else "FAIL " + (t.stdout.strip().splitlines() or [""])[-1]
            demo = os.path.join(d, "demo.py")
            env_base = dict(os.environ, PYTHONDONTWRITEBYTECODE="1", OPENBLAS_NUM_THREADS="1", MPLBACKEND="Agg")
            with_change = subprocess.run([PY, demo], capture_output=True, text=True, env=dict(env_base, PYTHONPATH=repo), timeout=600).returncode
            without = subprocess.run([PY, demo], capture_output=True, text=True, env=dict(env_base, PYTHONPATH=REPO), timeout=600).returncode
            tiers = ["quick", "thorough"] if a.tier == "auto" else [a.tier]
            caught_by = None
            klass = []
            rc = None
            for tier in tiers:
                rc, viol, klass = run_check(prop, repo, tier)
                if rc == 1 and viol:
                    caught_by = tier
                    break
            status = "caught" if caught_by else "MISSED"
            if with_change == 0 and not caught_by:
                # its own demonstration passes with the change applied: a later repair of /repo made it harmless
                status = "no-longer-breaking"
            print(f"{name}: prop={prop} pinned={tests} demo(with)={with_change} demo(without)={without} -> {status} ({caught_by}) {klass[:2]}")
            prev[name] = {
                "id": name,
                "property": prop,
                "pinned_tests_with_change": tests,
                "demo_exit_with_change": with_change,
                "demo_exit_without_change": without,
                "status": status,
                "caught_by_tier": caught_by,
                "check_exit": rc,
                "classes": klass[:4],
            }
        finally:
            shutil.rmtree(scr, ignore_errors=True)
    json.dump(sorted(prev.values(), key=lambda r: r["id"]), open(res_path, "w"), indent=1)
    for root, _, files in os.walk(os.path.join(ROOT, "replays")):
        for f in files:
            if len(f) == 21 and f.endswith(".json") and all(ch in "0123456789abcdef" for ch in f[:16]):
                os.remove(os.path.join(root, f))
    return 0


if __name__ == "__main__":
    sys.exit(main())
