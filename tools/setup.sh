#!/bin/bash
# Offline setup: nothing to build (pure Python). Verifies the interpreter, numpy/scipy and that pyttb imports from /repo.
cd "$(dirname "$(readlink -f "$0")")/.." || exit 2
export PYTHONDONTWRITEBYTECODE=1
/venv/bin/python - <<'PY'
import sys
sys.path.insert(0, "/repo")
import numpy, scipy, pyttb
print("setup ok: python", sys.version.split()[0], "numpy", numpy.__version__, "scipy", scipy.__version__, "pyttb from", pyttb.__file__)
PY
