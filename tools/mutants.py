#!/usr/bin/env python3
"""Sensitivity self-test (not a registered command): hand-written one-line mutants of
/repo, each applied to a scratch copy outside /repo and /verif; the pinned suite must stay
green on the copy (otherwise the mutant proves nothing) and the property's quick check,
pointed at the copy through VERIF_REPO, must exit 1.

usage: tools/mutants.py [--prop C04] [--name substring] [--no-tests] [--runs N]
Writes mutants/<prop>/<name>.diff (for the record) and mutants/RESULTS.json.
"""
import argparse
import difflib
import json
import os
import shutil
import subprocess
import sys
import tempfile

ROOT = os.path.dirname(os.path.dirname(os.path.abspath(__file__)))
REPO = "/repo"

# (property, name, file, old, new)
MUTANTS = [
    # ---- C04
    ("C04", "sparse-subs-skip-delete-group", "pyttb/sptensor.py", "        if np.sum(idxb) > 0:\n            removesubs = tf[idxb]", "        if False and np.sum(idxb) > 0:\n            removesubs = tf[idxb]"),
    ("C04", "dense-linear-c-order", "pyttb/tensor.py", "        idx = tt_ind2sub(self.shape, idx)\n        actualIdx = tuple(idx.transpose())", "        idx = tt_ind2sub(self.shape, idx, order=\"C\")\n        actualIdx = tuple(idx.transpose())"),
    ("C04", "dense-growth-wrong-corner", "pyttb/tensor.py", "                idx = [slice(None, currentShape) for currentShape in self.shape]\n                idx.extend([0] * (len(newsiz) - self.ndims))\n                newData[tuple(idx)] = self.data\n            self.data = newData\n\n            self.shape = tuple(newsiz)\n        try:", "                idx = [slice(-currentShape, None) for currentShape in self.shape]\n                idx.extend([0] * (len(newsiz) - self.ndims))\n                newData[tuple(idx)] = self.data\n            self.data = newData\n\n            self.shape = tuple(newsiz)\n        try:"),
    ("C04", "renumberdim-off-by-one", "pyttb/pyttb_utils.py", "        idx_map[number_range[i]] = int(i)", "        idx_map[number_range[i]] = int(i) + (1 if i == newshape - 1 and newshape > 2 else 0)"),
    ("C04", "irenumber-ignores-slice-start", "pyttb/pyttb_utils.py", "            start = r.start or 0\n            stop = r.stop or shape[i]", "            start = 0\n            stop = r.stop or shape[i]"),
    ("C04", "sparse-getitem-no-negative-fixup", "pyttb/sptensor.py", "                if isinstance(value, (int, np.integer)) and value < 0:\n                    value = self.shape[dim] + value  # noqa: PLW2901\n                region.append(value)", "                region.append(value)"),
    ("C04", "sparse-scalar-region-keeps-old-on-overlap", "pyttb/sptensor.py", "                loc = tt_intersect_rows(self.subs, addsubs)\n                self.vals[loc] = value", "                loc = tt_intersect_rows(self.subs, addsubs)\n                self.vals[loc[:1]] = value"),
    ("C04", "sparse-zero-region-no-delete-after-growth", "pyttb/sptensor.py", "            rmloc = self.subdims(key)\n            kploc = np.setdiff1d(range(0, self.nnz), rmloc).astype(int)\n            self.subs = self.subs[kploc, :]", "            rmloc = self.subdims(key)[:1]\n            kploc = np.setdiff1d(range(0, self.nnz), rmloc).astype(int)\n            self.subs = self.subs[kploc, :]"),
    # ---- C11
    ("C11", "kkt-slice-short", "pyttb/cp_apr.py", "        \"kktViolations\": kktViolations[: iteration + 1],\n        \"nInnerIters\": nInnerIters[: iteration + 1],\n        \"nViolations\"", "        \"kktViolations\": kktViolations[:iteration],\n        \"nInnerIters\": nInnerIters[: iteration + 1],\n        \"nViolations\""),
    ("C11", "mu-deadline-before-bookkeeping", "pyttb/cp_apr.py", "        nTimes[iteration] = time.time() - start\n\n        # Check for convergence\n        if isConverged:\n            if printitn > 0:\n                print(\"Exiting because all subproblems reached KKT tol.\")\n            break\n        if nTimes[iteration] > stoptime:", "        nTimes[iteration] = time.time() - start\n\n        # Check for convergence\n        if isConverged:\n            if printitn > 0:\n                print(\"Exiting because all subproblems reached KKT tol.\")\n            break\n        if nTimes[iteration] >= stoptime:"),
    ("C11", "mu-no-init-copy", "pyttb/cp_apr.py", "    # Set up for iteration - initializing M and Phi.\n    M = init.copy()", "    # Set up for iteration - initializing M and Phi.\n    M = init"),
    ("C11", "obj-before-final-sort-uses-stale", "pyttb/cp_apr.py", "    # Clean up final result\n    M.normalize(sort=True, normtype=1)\n\n    obj = tt_loglikelihood(input_tensor, M)\n\n    if printitn > 0:\n        normTensor = input_tensor.norm()\n        normresidual = np.sqrt(\n            normTensor**2 + M.norm() ** 2 - 2 * input_tensor.innerprod(M)\n        )\n        fit = 1 - (normresidual / normTensor)  # fraction explained by model\n        print(\"===========================================\")\n        print(f\" Final log-likelihood = {obj}\")\n        print(f\" Final least squares fit = {fit}\")\n        print(f\" Final KKT violation = {kktViolations[iteration]}\")\n        print(f\" Total inner iterations = {sum(nInnerIters)}\")\n        print(f\" Total execution time = {t_stop} secs\")\n\n    output = {\n        \"params\": {\n            \"stoptol\": stoptol,\n            \"stoptime\": stoptime,\n            \"maxiters\": maxiters,\n            \"maxinneriters\": maxinneriters,\n            \"epsDivZero\": epsDivZero,\n            \"printitn\": printitn,\n            \"printinneritn\": printinneritn,\n            \"kappa\": kappa,", "    # Clean up final result\n    M.normalize(sort=True, normtype=1)\n\n    obj = tt_loglikelihood(input_tensor, M) * (1.0 + 1e-7)\n\n    if printitn > 0:\n        normTensor = input_tensor.norm()\n        normresidual = np.sqrt(\n            normTensor**2 + M.norm() ** 2 - 2 * input_tensor.innerprod(M)\n        )\n        fit = 1 - (normresidual / normTensor)  # fraction explained by model\n        print(\"===========================================\")\n        print(f\" Final log-likelihood = {obj}\")\n        print(f\" Final least squares fit = {fit}\")\n        print(f\" Final KKT violation = {kktViolations[iteration]}\")\n        print(f\" Total inner iterations = {sum(nInnerIters)}\")\n        print(f\" Total execution time = {t_stop} secs\")\n\n    output = {\n        \"params\": {\n            \"stoptol\": stoptol,\n            \"stoptime\": stoptime,\n            \"maxiters\": maxiters,\n            \"maxinneriters\": maxinneriters,\n            \"epsDivZero\": epsDivZero,\n            \"printitn\": printitn,\n            \"printinneritn\": printinneritn,\n            \"kappa\": kappa,"),
    ("C11", "pdnr-loglik-sparse-skips-model-sum-mode", "pyttb/cp_apr.py", "            - np.sum(Model.factor_matrices[0])\n        )\n    dX =", "            - np.sum(Model.factor_matrices[-1])\n        )\n    dX ="),
    # ---- C13
    ("C13", "sgd-no-lower-bound-projection", "pyttb/gcp/optimizers.py", "        factor_matrices = [\n            np.maximum(lower_bound, factor - step * grad)\n            for factor, grad in zip(model.factor_matrices, gradient)\n        ]\n        return factor_matrices, step\n\n    def set_failed_epoch(self):  # noqa: D102\n        # No additional internal state for SGD", "        factor_matrices = [\n            factor - step * grad\n            for factor, grad in zip(model.factor_matrices, gradient)\n        ]\n        return factor_matrices, step\n\n    def set_failed_epoch(self):  # noqa: D102\n        # No additional internal state for SGD"),
    ("C13", "return-running-model-not-best", "pyttb/gcp/optimizers.py", "            if failed_epoch:\n                # Reset to best solution so far\n                model = best_model.copy()", "            if failed_epoch and n_epoch + 1 < self._max_iters:\n                # Reset to best solution so far\n                model = best_model.copy()"),
    ("C13", "zeros-no-rejection-of-nonzeros", "pyttb/gcp/samplers.py", "    iszero = np.logical_not(np.isin(tmpidx, nz_idx))", "    iszero = np.logical_not(np.isin(tmpidx, nz_idx[:-1]))"),
    ("C13", "stratified-wrong-zero-weights", "pyttb/gcp/samplers.py", "    data_nonzero_count = np.prod(data.shape) - data.nnz", "    data_nonzero_count = np.prod(data.shape)"),
    ("C13", "adagrad-keeps-gnormsum", "pyttb/gcp/optimizers.py", "    def _reset_state(self):\n        super()._reset_state()\n        self._gnormsum = 0.0", "    def _reset_state(self):\n        super()._reset_state()"),
    ("C13", "lbfgsb-monitor-left-in-slot", "pyttb/gcp/optimizers.py", "        finally:\n            # Unregister monitor in case of reuse (also when the solve is aborted)\n            self._solver_kwargs[\"callback\"] = monitor.callback", "        finally:\n            pass"),
    ("C13", "uniform-weights-off", "pyttb/gcp/samplers.py", "    wgts = (np.prod(data.shape) / samples) * np.ones((samples,))", "    wgts = (np.prod(data.shape) / (samples + 1)) * np.ones((samples,))"),
    ("C13", "nfails-not-reset", "pyttb/gcp/optimizers.py", "        \"\"\"Forget state of a previous solve so each solve only depends on its inputs.\"\"\"\n        self._nfails = 0", "        \"\"\"Forget state of a previous solve so each solve only depends on its inputs.\"\"\"\n        pass"),
    # ---- C18
    ("C18", "cp-als-random-start-from-fresh-generator", "pyttb/cp_als.py", "                np.random.uniform(0, 1, (input_tensor.shape[n], rank))", "                np.random.default_rng().uniform(0, 1, (input_tensor.shape[n], rank))"),
    ("C18", "hosvd-verbosity-gated-rank", "pyttb/hosvd.py", "        factor_matrices[k] = V[:, pi[0 : ranks[k] + 1]]", "        factor_matrices[k] = V[:, pi[0 : ranks[k] + 1 + (1 if verbosity > 5 and ranks[k] + 1 < len(pi) else 0)]]"),
    ("C18", "tucker-print-branch-touches-state", "pyttb/tucker_als.py", "        if (printitn > 0) and (divmod(iteration, printitn)[1] == 0):\n            print(f\" Iter {iteration}: fit = {fit:e} fitdelta = {fitchange:7.1e}\")", "        if (printitn > 0) and (divmod(iteration, printitn)[1] == 0):\n            print(f\" Iter {iteration}: fit = {fit:e} fitdelta = {fitchange:7.1e}\")\n            U[dimorder[-1]] = U[dimorder[-1]] * (1.0 + 1e-6)"),
    ("C18", "apr-print-branch-renormalises-again", "pyttb/cp_apr.py", "                fnVals[iteration] = -tt_loglikelihood(input_tensor, M.copy())", "                fnVals[iteration] = -tt_loglikelihood(input_tensor, M)"),
    ("C18", "calculate-pi-sparse-wrong-mode", "pyttb/cp_apr.py", None, None),
    ("C18", "cp-als-print-consumes-randomness", "pyttb/cp_als.py", "            print(f\" Iter {iteration}: f = {fit:e} f-delta = {fitchange:7.1e}\")", "            print(f\" Iter {iteration}: f = {fit:e} f-delta = {fitchange:7.1e}\")\n            np.random.uniform()"),
    # ---- C16
    ("C16", "format-15-digits", "pyttb/export_data.py", "def export_array(fp: TextIO, data: np.ndarray, fmt_data: Optional[str]):\n    \"\"\"Export dense data.\"\"\"\n    if not fmt_data:\n        fmt_data = \"%.16e\"", "def export_array(fp: TextIO, data: np.ndarray, fmt_data: Optional[str]):\n    \"\"\"Export dense data.\"\"\"\n    if not fmt_data:\n        fmt_data = \"%.15e\""),
    ("C16", "dense-no-transpose", "pyttb/export_data.py", "            export_array(fp, data.data.transpose(), fmt_data)", "            export_array(fp, data.data, fmt_data)"),
    ("C16", "sparse-no-plus-one", "pyttb/export_data.py", "        subs = subs + 1\n", "        subs = subs + 0\n"),
    ("C16", "open-append", "pyttb/export_data.py", "    with open(filename, \"w\") as fp:", "    with open(filename, \"a\") as fp:"),
    ("C16", "import-factor-f-order", "pyttb/import_data.py", "                fac = np.reshape(fac, np.array(fac_shape))", "                fac = np.reshape(fac, np.array(fac_shape), order=\"F\")"),
    ("C16", "import-index-base-ignored-for-zero", "pyttb/import_data.py", "        subs[k, :] = [np.int64(i) - index_base for i in line[:-1]]", "        subs[k, :] = [np.int64(i) - (index_base or 1) for i in line[:-1]]"),
    ("C16", "weights-format-short", "pyttb/export_data.py", "    if not fmt_weights:\n        fmt_weights = \"%.16e\"", "    if not fmt_weights:\n        fmt_weights = \"%.14e\""),
    # ---- C05
    ("C05", "tensor-copy-shares-data", "pyttb/tensor.py", "        return ttb.tensor(self.data, self.shape, copy=True)", "        return ttb.tensor(self.data, self.shape, copy=False)"),
    ("C05", "tensor-pos-returns-self", "pyttb/tensor.py", None, None),
    ("C05", "ktensor-copy-shares-factor-list", "pyttb/ktensor.py", "        return ttb.ktensor(self.factor_matrices, self.weights, copy=True)", "        return ttb.ktensor(self.factor_matrices, self.weights, copy=False)"),
    ("C05", "cp-als-starts-from-init-itself", "pyttb/cp_als.py", "    U = init.copy().factor_matrices", "    U = init.factor_matrices"),
    ("C05", "tenmat-to-tensor-ignores-copy", "pyttb/tenmat.py", None, None),
    ("C05", "ind2sub-writes-into-callers-index", "pyttb/pyttb_utils.py", None, None),
    ("C05", "ktensor-ttv-shares-again", "pyttb/ktensor.py", "            factor_matrices.append(self.factor_matrices[i].copy())", "            factor_matrices.append(self.factor_matrices[i])"),
    ("C05", "sptensor-permute-shares-vals", "pyttb/sptensor.py", None, None),
    ("C05", "fixsigns-normalizes-reference-again", "pyttb/ktensor.py", "        other_tensor = other.copy()\n", "        other_tensor = other\n"),
    ("C05", "sumtensor-copy-shallow", "pyttb/sumtensor.py", None, None),
    # ---- C19
    ("C19", "dimscheck-repeated-dims-again", "pyttb/pyttb_utils.py", "    if len(np.unique(dim_array)) != len(dim_array):", "    if False and len(np.unique(dim_array)) != len(dim_array):"),
    ("C19", "sptensor-innerprod-shortcut-first", "pyttb/sptensor.py", "        if isinstance(other, ttb.sptensor) and self.shape != other.shape:\n            assert False, \"Sptensors must be same shape for innerproduct\"\n", ""),
    ("C19", "tenmat-ctor-no-partition-check", "pyttb/tenmat.py", None, None),
    ("C19", "ktensor-ctor-weights-length", "pyttb/ktensor.py", None, None),
    ("C19", "sptensor-ttv-length-check-weakened", "pyttb/sptensor.py", None, None),
    ("C19", "setitem-value-count-partial-mutation", "pyttb/sptensor.py", "        elif newvals.shape[0] != newnnz:\n            # Sizes don't match\n            assert False, \"Number of subscripts and number of values do not match!\"", "        elif newvals.shape[0] < newnnz:\n            # Sizes don't match\n            assert False, \"Number of subscripts and number of values do not match!\""),
    # ---- C20
    ("C20", "from-function-no-unique", "pyttb/sptensor.py", "            subs = np.unique(subs, axis=0)\n            cnt += 1", "            cnt += 1"),
    ("C20", "tenrand-fresh-generator", "pyttb/tensor.py", "        data = np.random.uniform(low=0, high=1, size=np.prod(pass_through_shape))", "        data = np.random.default_rng().uniform(low=0, high=1, size=np.prod(pass_through_shape))"),
    ("C20", "aggregator-pairs-values-with-unsorted-subs", "pyttb/sptensor.py", "            newsubs, loc = np.unique(subs, axis=0, return_inverse=True)", "            newsubs, loc = np.unique(subs, axis=0, return_inverse=True)\n            newsubs = newsubs[::-1] if newsubs.shape[0] == 3 else newsubs"),
    ("C20", "tendiag-shape-not-enlarged", "pyttb/tensor.py", "        constructed_shape = tuple(max(N, dim) for dim in shape)\n    X = tenzeros(constructed_shape, order=order)", "        constructed_shape = tuple(max(N, dim) for dim in shape[:-1]) + (max(N, shape[-1]) + (1 if len(shape) == 3 else 0),)\n    X = tenzeros(constructed_shape, order=order)"),
    ("C20", "aggregator-keeps-zero-results", "pyttb/sptensor.py", "        nzidx = np.nonzero(newvals)\n        newsubs = newsubs[nzidx]", "        nzidx = np.nonzero(newvals + (newvals == 0) * (len(newvals) > 2))\n        newsubs = newsubs[nzidx]"),
    ("C20", "sptenrand-values-not-from-function", "pyttb/sptensor.py", "        vals = function_handle((nonzeros, 1))\n", "        vals = function_handle((nonzeros, 1)) * (1.0 if nonzeros != 3 else 0.5)\n"),
    ("C20", "teneye-wrong-normalisation", "pyttb/tensor.py", "        A[tuple(zip(*p))] = v / factorial(ndims)", "        A[tuple(zip(*p))] = v / factorial(ndims) if ndims < 4 else v / (factorial(ndims) + 1)"),
]


def make_copy():
    scr = tempfile.mkdtemp(prefix="verif_mut.", dir="/tmp")
    repo = os.path.join(scr, "repo")
    os.makedirs(repo)
    shutil.copytree(os.path.join(REPO, "pyttb"), os.path.join(repo, "pyttb"), ignore=shutil.ignore_patterns("__pycache__"))
    for f in ("pyproject.toml", "conftest.py"):
        shutil.copy(os.path.join(REPO, f), repo)
    return scr, repo


def main():
    ap = argparse.ArgumentParser()
    ap.add_argument("--prop")
    ap.add_argument("--name")
    ap.add_argument("--no-tests", action="store_true")
    ap.add_argument("--runs")
    a = ap.parse_args()
    results = []
    res_path = os.path.join(ROOT, "mutants", "RESULTS.json")
    prev = {}
    if os.path.exists(res_path):
        prev = {(r["property"], r["name"]): r for r in json.load(open(res_path))}
    for prop, name, rel, old, new in MUTANTS:
        if old is None:
            continue
        if a.prop and prop != a.prop:
            continue
        if a.name and a.name not in name:
            continue
        scr, repo = make_copy()
        try:
            p = os.path.join(repo, rel)
            src = open(p).read()
            if src.count(old) != 1:
                print(f"{prop} {name}: PATTERN-NOT-UNIQUE ({src.count(old)})")
                results.append({"property": prop, "name": name, "status": "pattern-error"})
                continue
            mut = src.replace(old, new)
            open(p, "w").write(mut)
            diff = "".join(difflib.unified_diff(src.splitlines(True), mut.splitlines(True), "a/" + rel, "b/" + rel))
            os.makedirs(os.path.join(ROOT, "mutants", prop), exist_ok=True)
            open(os.path.join(ROOT, "mutants", prop, name + ".diff"), "w").write(diff)
            tests = "skipped"
            if not a.no_tests:
                t = subprocess.run(["/venv/bin/python", "-m", "pytest", "-q", "-p", "no:cacheprovider", "-x"], cwd=repo, capture_output=True, text=True, env=dict(os.environ, PYTHONDONTWRITEBYTECODE="1", PYTHONPATH=repo))
                tail = t.stdout.strip().splitlines()[-1] if t.stdout.strip() else ""
                tests = "pass" if t.returncode == 0 else "FAIL: " + tail
            env = dict(os.environ, VERIF_REPO=repo, VERIF_NO_EVIDENCE="1")
            if a.runs:
                env["VERIF_RUNS"] = a.runs
            c = subprocess.run([os.path.join(ROOT, "check"), prop, "quick"], cwd=ROOT, capture_output=True, text=True, env=env)
            viol = [ln for ln in c.stdout.splitlines() if ln.startswith("VIOLATION")]
            klass = [ln.strip() for ln in c.stdout.splitlines() if ln.strip().startswith("class=")]
            status = "caught" if c.returncode == 1 and viol else ("harness-error" if c.returncode == 2 else "MISSED")
            print(f"{prop} {name}: tests={tests} check_exit={c.returncode} -> {status} {klass[:2]}")
            results.append({"property": prop, "name": name, "pinned_tests": tests, "check_exit": c.returncode, "status": status, "classes": klass[:4]})
        finally:
            shutil.rmtree(scr, ignore_errors=True)
    for r in results:
        prev[(r["property"], r["name"])] = r
    json.dump(sorted(prev.values(), key=lambda r: (r["property"], r["name"])), open(res_path, "w"), indent=1)
    # found-violation replays written while testing mutants are not kept
    for root, _, files in os.walk(os.path.join(ROOT, "replays")):
        for f in files:
            if len(f) == 21 and f.endswith(".json") and all(ch in "0123456789abcdef" for ch in f[:16]):
                os.remove(os.path.join(root, f))
    missed = [r for r in results if r["status"] != "caught"]
    print(f"{len(results) - len(missed)}/{len(results)} caught")
    return 1 if missed else 0


if __name__ == "__main__":
    sys.exit(main())
